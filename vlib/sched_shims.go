package vlib

// Shim replacements for sync.Mutex / RWMutex / Cond / WaitGroup / Once / Pool and sync/atomic types (Engine C).
// Every operation is a scheduling point when executed by a scheduled thread; otherwise (setup code, hooks, processes
// without an explorer) it acts directly on the modelled state and panics if it would have to block.

import (
	"fmt"
	"strings"
	"sync"
)

const (
	opLock uint64 = 0x10 + iota
	opUnlock
	opRLock
	opRUnlock
	opTryLock
	opCondWait
	opCondWake
	opSignal
	opBroadcast
	opWgAdd
	opWgWait
	opOnce
	opAtomic
	opChan
	opChanPark
	opClose
	opCtx
	opSleep
	opPool
)

func shimBlockPanic(what string) {
	panic("vlib shim: " + what + " would block outside a scheduled thread (uninstrumented caller, or shim used in setup/hook code)")
}

// ---------------------------------------------------------------- Mutex

// Mutex replaces sync.Mutex.
type Mutex struct {
	reg    schedReg
	locked bool
	owner  int32
}

func (m *Mutex) schedState(b *strings.Builder) {
	if m.locked {
		fmt.Fprintf(b, "M%d", m.owner)
	} else {
		b.WriteString("M-")
	}
}

func (m *Mutex) sync(x *Exec) {
	if m.reg.register(x, m) {
		m.locked = false
	}
}

func (m *Mutex) Lock() {
	x := inThread()
	if x == nil {
		if c := schedCur; c != nil {
			m.sync(c)
		}
		if m.locked {
			shimBlockPanic("Mutex.Lock")
		}
		m.locked, m.owner = true, -1
		return
	}
	m.sync(x)
	x.point(func() bool { return !m.locked }, "Mutex.Lock", opLock+uint64(m.reg.id)<<8)
	m.locked, m.owner = true, int32(x.cur.id)
}

func (m *Mutex) TryLock() bool {
	x := inThread()
	if x != nil {
		m.sync(x)
		x.point(nil, "Mutex.TryLock", opTryLock+uint64(m.reg.id)<<8)
	} else if c := schedCur; c != nil {
		m.sync(c)
	}
	if m.locked {
		if x != nil {
			x.noteResult(0)
		}
		return false
	}
	m.locked, m.owner = true, int32(ThreadID())
	if x != nil {
		x.noteResult(1)
	}
	return true
}

func (m *Mutex) Unlock() {
	x := inThread()
	if x != nil {
		m.sync(x)
		if x.quiet&QuietUnlock == 0 {
			x.point(nil, "Mutex.Unlock", opUnlock+uint64(m.reg.id)<<8)
		}
	} else if c := schedCur; c != nil {
		m.sync(c)
	}
	if !m.locked {
		panic("sync: unlock of unlocked mutex")
	}
	m.locked = false
}

// unlockNoPoint releases the mutex as part of another atomic operation (Cond.Wait).
func (m *Mutex) unlockNoPoint() {
	if !m.locked {
		panic("sync: unlock of unlocked mutex")
	}
	m.locked = false
}

// ---------------------------------------------------------------- RWMutex

// RWMutex replaces sync.RWMutex (no writer preference: a superset of Go's behaviours).
type RWMutex struct {
	reg     schedReg
	writer  bool
	readers int
}

func (m *RWMutex) schedState(b *strings.Builder) { fmt.Fprintf(b, "RW%v/%d", m.writer, m.readers) }

func (m *RWMutex) sync(x *Exec) {
	if m.reg.register(x, m) {
		m.writer, m.readers = false, 0
	}
}

func (m *RWMutex) enter() *Exec {
	x := inThread()
	if x != nil {
		m.sync(x)
	} else if c := schedCur; c != nil {
		m.sync(c)
	}
	return x
}

func (m *RWMutex) Lock() {
	x := m.enter()
	if x == nil {
		if m.writer || m.readers > 0 {
			shimBlockPanic("RWMutex.Lock")
		}
	} else {
		x.point(func() bool { return !m.writer && m.readers == 0 }, "RWMutex.Lock", opLock+uint64(m.reg.id)<<8)
	}
	m.writer = true
}

func (m *RWMutex) Unlock() {
	if x := m.enter(); x != nil && x.quiet&QuietUnlock == 0 {
		x.point(nil, "RWMutex.Unlock", opUnlock+uint64(m.reg.id)<<8)
	}
	if !m.writer {
		panic("sync: Unlock of unlocked RWMutex")
	}
	m.writer = false
}

func (m *RWMutex) RLock() {
	x := m.enter()
	if x == nil {
		if m.writer {
			shimBlockPanic("RWMutex.RLock")
		}
	} else {
		x.point(func() bool { return !m.writer }, "RWMutex.RLock", opRLock+uint64(m.reg.id)<<8)
	}
	m.readers++
}

func (m *RWMutex) RUnlock() {
	if x := m.enter(); x != nil && x.quiet&QuietUnlock == 0 {
		x.point(nil, "RWMutex.RUnlock", opRUnlock+uint64(m.reg.id)<<8)
	}
	if m.readers <= 0 {
		panic("sync: RUnlock of unlocked RWMutex")
	}
	m.readers--
}

func (m *RWMutex) TryLock() bool {
	x := m.enter()
	if x != nil {
		x.point(nil, "RWMutex.TryLock", opTryLock+uint64(m.reg.id)<<8)
	}
	ok := !m.writer && m.readers == 0
	if ok {
		m.writer = true
	}
	if x != nil {
		x.noteResult(b2u(ok))
	}
	return ok
}

func (m *RWMutex) TryRLock() bool {
	x := m.enter()
	if x != nil {
		x.point(nil, "RWMutex.TryRLock", opTryLock+uint64(m.reg.id)<<8)
	}
	ok := !m.writer
	if ok {
		m.readers++
	}
	if x != nil {
		x.noteResult(b2u(ok))
	}
	return ok
}

// RLocker mirrors sync.RWMutex.RLocker.
func (m *RWMutex) RLocker() sync.Locker { return rlocker{m} }

type rlocker struct{ m *RWMutex }

func (r rlocker) Lock()   { r.m.RLock() }
func (r rlocker) Unlock() { r.m.RUnlock() }

func b2u(b bool) uint64 {
	if b {
		return 1
	}
	return 0
}

// ---------------------------------------------------------------- Cond

// Cond replaces sync.Cond. L must be set before use, as with sync.Cond.
type Cond struct {
	L       sync.Locker
	reg     schedReg
	waiters []*Thread
}

// NewCond replaces sync.NewCond.
func NewCond(l sync.Locker) *Cond { return &Cond{L: l} }

func (c *Cond) schedState(b *strings.Builder) {
	b.WriteString("C")
	for _, w := range c.waiters {
		fmt.Fprintf(b, ",%d", w.id)
	}
}

func (c *Cond) sync(x *Exec) {
	if c.reg.register(x, c) {
		c.waiters = nil
	}
}

// Wait atomically unlocks L and parks the thread; it resumes only after Signal/Broadcast, then re-locks L.
func (c *Cond) Wait() {
	x := inThread()
	if x == nil {
		shimBlockPanic("Cond.Wait")
	}
	c.sync(x)
	x.point(nil, "Cond.Wait", opCondWait+uint64(c.reg.id)<<8)
	t := x.cur
	if m, ok := c.L.(*Mutex); ok {
		m.unlockNoPoint()
	} else if m, ok := c.L.(*RWMutex); ok {
		if !m.writer {
			panic("sync: Unlock of unlocked RWMutex")
		}
		m.writer = false
	} else {
		schedFatal("Cond.L is a %T, not a shim lock: an uninstrumented mutex on the explored path", c.L)
	}
	t.condSignalled = false
	c.waiters = append(c.waiters, t)
	x.point(func() bool { return t.condSignalled }, "Cond.Wait(parked)", opCondWake+uint64(c.reg.id)<<8)
	c.L.Lock()
}

// Signal wakes one waiter — which one is a value choice (sync.Cond promises no order).
func (c *Cond) Signal() {
	x := inThread()
	if x != nil {
		c.sync(x)
		x.point(nil, "Cond.Signal", opSignal+uint64(c.reg.id)<<8)
	} else if cx := schedCur; cx != nil {
		c.sync(cx)
	}
	if len(c.waiters) == 0 {
		return
	}
	i := 0
	if x != nil {
		i = x.choose(len(c.waiters))
	}
	c.waiters[i].condSignalled = true
	c.waiters = append(c.waiters[:i:i], c.waiters[i+1:]...)
}

func (c *Cond) Broadcast() {
	x := inThread()
	if x != nil {
		c.sync(x)
		x.point(nil, "Cond.Broadcast", opBroadcast+uint64(c.reg.id)<<8)
	} else if cx := schedCur; cx != nil {
		c.sync(cx)
	}
	for _, w := range c.waiters {
		w.condSignalled = true
	}
	c.waiters = nil
}

// ---------------------------------------------------------------- WaitGroup, Once, Pool

// WaitGroup replaces sync.WaitGroup.
type WaitGroup struct {
	reg schedReg
	n   int
}

func (w *WaitGroup) schedState(b *strings.Builder) { fmt.Fprintf(b, "W%d", w.n) }

func (w *WaitGroup) enter() *Exec {
	x := inThread()
	c := x
	if c == nil {
		c = schedCur
	}
	if c != nil && w.reg.register(c, w) {
		w.n = 0
	}
	return x
}

func (w *WaitGroup) Add(d int) {
	if x := w.enter(); x != nil {
		x.point(nil, "WaitGroup.Add", opWgAdd+uint64(w.reg.id)<<8)
	}
	w.n += d
	if w.n < 0 {
		panic("sync: negative WaitGroup counter")
	}
}

func (w *WaitGroup) Done() { w.Add(-1) }

func (w *WaitGroup) Wait() {
	x := w.enter()
	if x == nil {
		if w.n != 0 {
			shimBlockPanic("WaitGroup.Wait")
		}
		return
	}
	x.point(func() bool { return w.n == 0 }, "WaitGroup.Wait", opWgWait+uint64(w.reg.id)<<8)
}

// Go mirrors sync.WaitGroup.Go (go1.25); harmless on 1.24.
func (w *WaitGroup) Go(f func()) {
	w.Add(1)
	Go(func() { defer w.Done(); f() })
}

// Once replaces sync.Once.
type Once struct {
	reg     schedReg
	state int // 0 fresh, 1 running, 2 done
}

func (o *Once) schedState(b *strings.Builder) { fmt.Fprintf(b, "O%d", o.state) }

func (o *Once) Do(f func()) {
	x := inThread()
	c := x
	if c == nil {
		c = schedCur
	}
	if c != nil && o.reg.register(c, o) {
		o.state = 0
	}
	if x != nil {
		x.point(func() bool { return o.state != 1 }, "Once.Do", opOnce+uint64(o.reg.id)<<8)
	} else if o.state == 1 {
		shimBlockPanic("Once.Do")
	}
	if o.state == 2 {
		if x != nil {
			x.noteResult(2)
		}
		return
	}
	o.state = 1
	defer func() { o.state = 2 }()
	f()
}

// Pool replaces sync.Pool by a deterministic LIFO free list (object reuse is forced, not left to the GC).
type Pool struct {
	New  func() any
	free []any
	reg  schedReg
}

func (p *Pool) schedState(b *strings.Builder) { fmt.Fprintf(b, "P%d", len(p.free)) }

func (p *Pool) enter(what string) {
	x := inThread()
	c := x
	if c == nil {
		c = schedCur
	}
	if c != nil && p.reg.register(c, p) {
		p.free = nil
	}
	if x != nil && x.quiet&QuietPool == 0 {
		x.point(nil, what, opPool+uint64(p.reg.id)<<8)
	}
}

func (p *Pool) Get() any {
	p.enter("Pool.Get")
	if n := len(p.free); n > 0 {
		v := p.free[n-1]
		p.free = p.free[:n-1]
		return v
	}
	if p.New != nil {
		return p.New()
	}
	return nil
}

func (p *Pool) Put(v any) {
	p.enter("Pool.Put")
	if v != nil {
		p.free = append(p.free, v)
	}
}

// ---------------------------------------------------------------- atomics (scheduling points, sequentially consistent)

func atomicPoint() {
	if x := inThread(); x != nil && x.quiet&QuietAtomic == 0 {
		x.point(nil, "atomic", opAtomic)
	}
}

type AtomicInt64 struct{ v int64 }

func (a *AtomicInt64) Load() int64   { atomicPoint(); return a.v }
func (a *AtomicInt64) Store(v int64) { atomicPoint(); a.v = v }
func (a *AtomicInt64) Add(d int64) int64 {
	atomicPoint()
	a.v += d
	return a.v
}
func (a *AtomicInt64) Swap(v int64) int64 { atomicPoint(); o := a.v; a.v = v; return o }
func (a *AtomicInt64) CompareAndSwap(o, n int64) bool {
	atomicPoint()
	if a.v == o {
		a.v = n
		return true
	}
	return false
}

type AtomicInt32 struct{ v int32 }

func (a *AtomicInt32) Load() int32   { atomicPoint(); return a.v }
func (a *AtomicInt32) Store(v int32) { atomicPoint(); a.v = v }
func (a *AtomicInt32) Add(d int32) int32 {
	atomicPoint()
	a.v += d
	return a.v
}
func (a *AtomicInt32) Swap(v int32) int32 { atomicPoint(); o := a.v; a.v = v; return o }
func (a *AtomicInt32) CompareAndSwap(o, n int32) bool {
	atomicPoint()
	if a.v == o {
		a.v = n
		return true
	}
	return false
}

type AtomicUint64 struct{ v uint64 }

func (a *AtomicUint64) Load() uint64   { atomicPoint(); return a.v }
func (a *AtomicUint64) Store(v uint64) { atomicPoint(); a.v = v }
func (a *AtomicUint64) Add(d uint64) uint64 {
	atomicPoint()
	a.v += d
	return a.v
}
func (a *AtomicUint64) Swap(v uint64) uint64 { atomicPoint(); o := a.v; a.v = v; return o }
func (a *AtomicUint64) CompareAndSwap(o, n uint64) bool {
	atomicPoint()
	if a.v == o {
		a.v = n
		return true
	}
	return false
}

type AtomicUint32 struct{ v uint32 }

func (a *AtomicUint32) Load() uint32   { atomicPoint(); return a.v }
func (a *AtomicUint32) Store(v uint32) { atomicPoint(); a.v = v }
func (a *AtomicUint32) Add(d uint32) uint32 {
	atomicPoint()
	a.v += d
	return a.v
}
func (a *AtomicUint32) Swap(v uint32) uint32 { atomicPoint(); o := a.v; a.v = v; return o }
func (a *AtomicUint32) CompareAndSwap(o, n uint32) bool {
	atomicPoint()
	if a.v == o {
		a.v = n
		return true
	}
	return false
}

type AtomicBool struct{ v bool }

func (a *AtomicBool) Load() bool       { atomicPoint(); return a.v }
func (a *AtomicBool) Store(v bool)     { atomicPoint(); a.v = v }
func (a *AtomicBool) Swap(v bool) bool { atomicPoint(); o := a.v; a.v = v; return o }
func (a *AtomicBool) CompareAndSwap(o, n bool) bool {
	atomicPoint()
	if a.v == o {
		a.v = n
		return true
	}
	return false
}

type AtomicPointer[T any] struct{ v *T }

func (a *AtomicPointer[T]) Load() *T       { atomicPoint(); return a.v }
func (a *AtomicPointer[T]) Store(v *T)     { atomicPoint(); a.v = v }
func (a *AtomicPointer[T]) Swap(v *T) *T   { atomicPoint(); o := a.v; a.v = v; return o }
func (a *AtomicPointer[T]) CompareAndSwap(o, n *T) bool {
	atomicPoint()
	if a.v == o {
		a.v = n
		return true
	}
	return false
}

// Function-style atomics.
func AtomicAddInt64(p *int64, d int64) int64     { atomicPoint(); *p += d; return *p }
func AtomicLoadInt64(p *int64) int64             { atomicPoint(); return *p }
func AtomicStoreInt64(p *int64, v int64)         { atomicPoint(); *p = v }
func AtomicAddInt32(p *int32, d int32) int32     { atomicPoint(); *p += d; return *p }
func AtomicLoadInt32(p *int32) int32             { atomicPoint(); return *p }
func AtomicStoreInt32(p *int32, v int32)         { atomicPoint(); *p = v }
func AtomicAddUint64(p *uint64, d uint64) uint64 { atomicPoint(); *p += d; return *p }
func AtomicLoadUint64(p *uint64) uint64          { atomicPoint(); return *p }
func AtomicStoreUint64(p *uint64, v uint64)      { atomicPoint(); *p = v }
func AtomicAddUint32(p *uint32, d uint32) uint32 { atomicPoint(); *p += d; return *p }
func AtomicLoadUint32(p *uint32) uint32          { atomicPoint(); return *p }
func AtomicStoreUint32(p *uint32, v uint32)      { atomicPoint(); *p = v }
func AtomicCompareAndSwapInt32(p *int32, o, n int32) bool {
	atomicPoint()
	if *p == o {
		*p = n
		return true
	}
	return false
}
func AtomicCompareAndSwapInt64(p *int64, o, n int64) bool {
	atomicPoint()
	if *p == o {
		*p = n
		return true
	}
	return false
}
