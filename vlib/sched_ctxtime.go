package vlib

// Shim context and virtual time for Engine C, plus the free-running mode used by the -race pass.

import (
	"context"
	"fmt"
	"sort"
	"sync"
	"time"
)

// ---------------------------------------------------------------- context

type shimCtxKey struct{}

type shimCtx struct {
	parent   context.Context
	done     *Chan[struct{}]
	realDone chan struct{}
	err      error
	cause    error
	children []*shimCtx
	deadline time.Time
	hasDl    bool
	timer    *schedTimer
}

func (c *shimCtx) Deadline() (time.Time, bool) {
	if c.hasDl {
		return c.deadline, true
	}
	return c.parent.Deadline()
}
func (c *shimCtx) Done() <-chan struct{} { return c.realDone }
func (c *shimCtx) Err() error {
	if x := inThread(); x != nil {
		x.point(nil, "ctx.Err", opCtx)
		x.noteResult(b2u(c.err != nil))
	}
	return c.err
}
func (c *shimCtx) Value(k any) any {
	if _, ok := k.(shimCtxKey); ok {
		return c
	}
	return c.parent.Value(k)
}
func (c *shimCtx) String() string { return "vlib.shimCtx" }

func (c *shimCtx) cancelNoPoint(err, cause error) {
	if c.err != nil {
		return
	}
	c.err, c.cause = err, cause
	if !c.done.c.closed {
		c.done.c.closed = true
		// complete parked receivers exactly like Chan.Close
		if xc := schedCur; xc != nil {
			for _, t := range xc.threads {
				if t.done || t.selDone || t.selCases == nil {
					continue
				}
				for i, sc := range t.selCases {
					if sc.ch == &c.done.c {
						completePeer(t, i, nil, false)
						break
					}
				}
			}
		}
	}
	close(c.realDone)
	for _, ch := range c.children {
		ch.cancelNoPoint(err, cause)
	}
}

func newShimCtx(parent context.Context) *shimCtx {
	if parent == nil {
		panic("cannot create context from nil parent")
	}
	c := &shimCtx{parent: parent, done: MakeChan[struct{}](0), realDone: make(chan struct{})}
	if p, ok := parent.Value(shimCtxKey{}).(*shimCtx); ok && p != nil {
		if p.err != nil {
			c.cancelNoPoint(p.err, p.cause)
		} else {
			p.children = append(p.children, c)
		}
	} else if parent.Done() != nil {
		schedFatal("shim context derived from a real cancellable context %T: cancellation would be invisible to the scheduler", parent)
	}
	return c
}

// WithCancel replaces context.WithCancel. cancel() is a scheduling point.
func WithCancel(parent context.Context) (context.Context, context.CancelFunc) {
	if freeRun {
		return context.WithCancel(parent)
	}
	c := newShimCtx(parent)
	return c, func() {
		if x := inThread(); x != nil {
			x.point(nil, "ctx.cancel", opCtx+1)
		}
		c.cancelNoPoint(context.Canceled, context.Canceled)
	}
}

// WithCancelCause replaces context.WithCancelCause.
func WithCancelCause(parent context.Context) (context.Context, context.CancelCauseFunc) {
	if freeRun {
		return context.WithCancelCause(parent)
	}
	c := newShimCtx(parent)
	return c, func(cause error) {
		if x := inThread(); x != nil {
			x.point(nil, "ctx.cancel", opCtx+1)
		}
		if cause == nil {
			cause = context.Canceled
		}
		c.cancelNoPoint(context.Canceled, cause)
	}
}

// WithDeadline replaces context.WithDeadline: the deadline fires on the virtual clock (at quiescence).
func WithDeadline(parent context.Context, d time.Time) (context.Context, context.CancelFunc) {
	if freeRun {
		return context.WithDeadline(parent, d)
	}
	c := newShimCtx(parent)
	c.deadline, c.hasDl = d, true
	x := schedCur
	if x == nil {
		panic("vlib.WithDeadline outside an execution")
	}
	when := d.Sub(schedBase).Nanoseconds()
	if when <= x.now {
		c.cancelNoPoint(context.DeadlineExceeded, context.DeadlineExceeded)
	} else if c.err == nil {
		c.timer = x.addTimer(when, func() { c.cancelNoPoint(context.DeadlineExceeded, context.DeadlineExceeded) })
	}
	return c, func() {
		if x := inThread(); x != nil {
			x.point(nil, "ctx.cancel", opCtx+1)
		}
		if c.timer != nil {
			c.timer.dead = true
		}
		c.cancelNoPoint(context.Canceled, context.Canceled)
	}
}

// WithTimeout replaces context.WithTimeout.
func WithTimeout(parent context.Context, d time.Duration) (context.Context, context.CancelFunc) {
	if freeRun {
		return context.WithTimeout(parent, d)
	}
	return WithDeadline(parent, Now().Add(d))
}

// CtxDone replaces ctx.Done() in instrumented code: the shim channel of the nearest shim context; nil (blocks forever)
// for contexts that can never be cancelled. A real cancellable context on the explored path is a hard error.
func CtxDone(ctx context.Context) *Chan[struct{}] {
	if p, ok := ctx.Value(shimCtxKey{}).(*shimCtx); ok && p != nil {
		if ctx.Done() != (<-chan struct{})(p.realDone) {
			schedFatal("context %T wraps a shim context with its own real Done channel: its cancellation is invisible to the scheduler", ctx)
		}
		return p.done
	}
	if ctx.Done() == nil {
		return nil
	}
	schedFatal("real cancellable context %T reached instrumented code (use vlib.WithCancel in the harness)", ctx)
	return nil
}

// ---------------------------------------------------------------- virtual time

var schedBase = time.Date(2025, 1, 1, 0, 0, 0, 0, time.UTC)

type schedTimer struct {
	when int64
	seq  int64
	f    func()
	dead bool
}

func (x *Exec) addTimer(when int64, f func()) *schedTimer {
	x.timerSeq++
	t := &schedTimer{when: when, seq: x.timerSeq, f: f}
	x.timers = append(x.timers, t)
	sort.SliceStable(x.timers, func(i, j int) bool {
		if x.timers[i].when != x.timers[j].when {
			return x.timers[i].when < x.timers[j].when
		}
		return x.timers[i].seq < x.timers[j].seq
	})
	return t
}

// fireTimer advances the virtual clock to the earliest live timer and runs it; false if there is none (or it lies
// beyond the horizon).
func (x *Exec) fireTimer() bool {
	for len(x.timers) > 0 {
		t := x.timers[0]
		x.timers = x.timers[1:]
		if t.dead {
			continue
		}
		if t.when > x.horizon {
			x.timers = nil
			return false
		}
		if t.when > x.now {
			x.now = t.when
		}
		t.dead = true
		t.f()
		return true
	}
	return false
}

// Now replaces time.Now: a fixed base date plus the virtual clock. Outside an execution it is the base date.
func Now() time.Time {
	if freeRun {
		return time.Now()
	}
	if x := schedCur; x != nil {
		return schedBase.Add(time.Duration(x.now))
	}
	return schedBase
}

func Since(t time.Time) time.Duration { return Now().Sub(t) }
func Until(t time.Time) time.Duration { return t.Sub(Now()) }

// Sleep replaces time.Sleep: the thread is disabled until the virtual clock reaches now+d, which happens only when
// no thread is enabled.
func Sleep(d time.Duration) {
	if freeRun {
		time.Sleep(d)
		return
	}
	x := inThread()
	if x == nil {
		shimBlockPanic("time.Sleep")
	}
	x.point(nil, "time.Sleep", opSleep)
	if d <= 0 {
		return
	}
	when := x.now + int64(d)
	x.addTimer(when, func() {})
	x.point(func() bool { return x.now >= when }, fmt.Sprintf("time.Sleep(until +%v)", time.Duration(when)), opSleep+1)
}

// Timer replaces time.Timer.
type Timer struct {
	C *Chan[time.Time]
	t *schedTimer
	f func()
}

func (tm *Timer) arm(d time.Duration) {
	x := schedCur
	if x == nil {
		panic("vlib timer outside an execution")
	}
	tm.t = x.addTimer(x.now+int64(d), func() {
		if tm.f != nil {
			x.Go("timer-func", tm.f)
			return
		}
		if len(tm.C.c.buf) < 1 {
			xx := schedCur
			if ts, idx := xx.parkedPeers(nil, &tm.C.c, false); len(ts) > 0 {
				completePeer(ts[0], idx[0], Now(), true)
			} else {
				tm.C.c.buf = append(tm.C.c.buf, Now())
			}
		}
	})
}

func NewTimer(d time.Duration) *Timer {
	tm := &Timer{C: MakeChan[time.Time](1)}
	tm.arm(d)
	return tm
}

func AfterFunc(d time.Duration, f func()) *Timer {
	tm := &Timer{f: f}
	tm.arm(d)
	return tm
}

func After(d time.Duration) *Chan[time.Time] { return NewTimer(d).C }

func (tm *Timer) Stop() bool {
	if x := inThread(); x != nil {
		x.point(nil, "Timer.Stop", opSleep+2)
	}
	was := tm.t != nil && !tm.t.dead
	if tm.t != nil {
		tm.t.dead = true
	}
	return was
}

func (tm *Timer) Reset(d time.Duration) bool {
	was := tm.Stop()
	tm.arm(d)
	return was
}

// Ticker replaces time.Ticker (fires at quiescence until the horizon).
type Ticker struct {
	C       *Chan[time.Time]
	d       time.Duration
	stopped bool
}

func NewTicker(d time.Duration) *Ticker {
	if d <= 0 {
		panic("non-positive interval for NewTicker")
	}
	tk := &Ticker{C: MakeChan[time.Time](1), d: d}
	tk.arm()
	return tk
}

func (tk *Ticker) arm() {
	x := schedCur
	if x == nil {
		panic("vlib ticker outside an execution")
	}
	x.addTimer(x.now+int64(tk.d), func() {
		if tk.stopped {
			return
		}
		if ts, idx := x.parkedPeers(nil, &tk.C.c, false); len(ts) > 0 {
			completePeer(ts[0], idx[0], Now(), true)
		} else if len(tk.C.c.buf) < 1 {
			tk.C.c.buf = append(tk.C.c.buf, Now())
		}
		tk.arm()
	})
}

func (tk *Ticker) Stop()                 { tk.stopped = true }
func (tk *Ticker) Reset(d time.Duration) { tk.d = d }

// ---------------------------------------------------------------- free-running mode (race pass)

var freeWG sync.WaitGroup

func freeGo(f func()) {
	freeWG.Add(1)
	go func() {
		defer freeWG.Done()
		f()
	}()
}

// FreeRun runs body with vlib.Go = real goroutines and vlib.WithCancel = real contexts, then waits for all of them.
// It is used by the free-running -race pass, which compiles the same harness bodies against the UNinstrumented code.
func FreeRun(body func()) {
	freeRun = true
	defer func() { freeRun = false }()
	body()
	freeWG.Wait()
}
