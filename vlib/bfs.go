package vlib

import (
	"fmt"
	"sync"
)

// BFS is Engine S: explicit-state breadth-first search over operation histories of the real implementation.
// A state is represented by the shortest history reaching it (live objects cannot be cloned): Exec builds a fresh
// instance, replays the history and returns the canonical key of the reached state plus the text of an invariant
// violation ("" if none). Levels are explored in parallel and merged deterministically (frontier order × op order),
// so the first counterexample is a shortest one and the exploration is reproducible.
type BFS[Op any] struct {
	Ops      func(hist []Op) []Op                    // operations to try from the state reached by hist
	Exec     func(hist []Op) (key string, viol string) // run hist on a fresh instance
	MaxDepth int                                     // 0 = until no new state appears (fixpoint)
	OnViol   func(hist []Op, viol string)            // called once per violating (state-reaching) history
	MaxViol  int                                     // stop expanding after this many violations (default 5)
}

// BFSResult reports what the search covered.
type BFSResult struct {
	States, Transitions int64
	Depth               int  // last depth completely expanded
	Fixpoint            bool // no new states at the last level: holds for histories of any length
	Truncated           bool // time budget hit
}

type bfsOut struct {
	key, viol string
}

// Explore runs the search, counting into r.
func (b *BFS[Op]) Explore(r *Run) BFSResult {
	res := BFSResult{}
	seen := map[string]struct{}{}
	maxViol := b.MaxViol
	if maxViol == 0 {
		maxViol = 5
	}
	nviol := 0
	k0, v0 := b.Exec(nil)
	r.Traces.Add(1)
	seen[k0] = struct{}{}
	res.States = 1
	r.States.Add(1)
	if v0 != "" {
		b.OnViol(nil, v0)
		nviol++
	}
	frontier := [][]Op{nil}
	for depth := 1; len(frontier) > 0 && (b.MaxDepth == 0 || depth <= b.MaxDepth); depth++ {
		// candidate list
		type cand struct {
			hist []Op
		}
		var cands []cand
		for _, h := range frontier {
			for _, op := range b.Ops(h) {
				nh := make([]Op, len(h)+1)
				copy(nh, h)
				nh[len(h)] = op
				cands = append(cands, cand{nh})
			}
		}
		outs := make([]bfsOut, len(cands))
		doneFlags := make([]bool, len(cands))
		var mu sync.Mutex
		n := r.ParallelFor(len(cands), fmt.Sprintf("bfs depth %d", depth), func(i int) {
			k, v := b.Exec(cands[i].hist)
			outs[i] = bfsOut{k, v}
			mu.Lock()
			doneFlags[i] = true
			mu.Unlock()
		})
		r.Traces.Add(int64(n))
		var next [][]Op
		for i := range cands {
			if !doneFlags[i] {
				continue
			}
			res.Transitions++
			r.Transitions.Add(1)
			if _, ok := seen[outs[i].key]; ok {
				continue
			}
			seen[outs[i].key] = struct{}{}
			res.States++
			r.States.Add(1)
			if outs[i].viol != "" {
				nviol++
				if nviol <= maxViol {
					b.OnViol(cands[i].hist, outs[i].viol)
				}
				continue // do not expand beyond a violating state
			}
			next = append(next, cands[i].hist)
		}
		if n < len(cands) {
			res.Truncated = true
			return res
		}
		res.Depth = depth
		if len(next) > 0 && depth >= 2 {
			h := next[len(next)-1]
			k, _ := b.Exec(h)
			if len(k) > 300 {
				k = k[:300] + "..."
			}
			r.Sample(map[string]any{"history": fmt.Sprint(h), "reached_state": k, "depth": depth})
		}
		frontier = next
		if len(next) == 0 {
			res.Fixpoint = true
		}
		if nviol >= maxViol {
			break
		}
	}
	return res
}
