package vlib

// Engine C, part 2: the depth-first explorer over choice sequences, process sharding, and the check protocol.

import (
	"encoding/json"
	"fmt"
	"os"
	"os/exec"
	"path/filepath"
	"sort"
	"strings"
	"sync"
	"time"
)

// SchedJob is one exploration task: all schedules of Test with at most Bound preemptions (Bound < 0: all schedules).
type SchedJob struct {
	Test     string `json:"test"`
	Bound    int    `json:"bound"`
	Prune    bool   `json:"prune,omitempty"`  // state-key pruning: a state already expanded with no more preemptions spent is not expanded again
	Shard    int    `json:"shard,omitempty"`  // this process explores the depth-2 subtrees with index%NShards == Shard
	NShards  int    `json:"nshards,omitempty"`
	Deadline int64  `json:"deadline,omitempty"` // unix seconds; exploration stops cleanly after it (Truncated)
	MaxExecs int64  `json:"max_execs,omitempty"`
}

// SchedViol is a confirmed (5x identically replayed) violating schedule.
type SchedViol struct {
	Test    string   `json:"test"`
	Bound   int      `json:"bound"`
	What    string   `json:"what"`
	Choices []int32  `json:"choices"`
	Trace   string   `json:"trace"`
	Log     []string `json:"log"`
	Status  string   `json:"status"`
	Blocked []string `json:"blocked,omitempty"`
}

// SchedReport is what one job covered.
type SchedReport struct {
	Job        SchedJob         `json:"job"`
	Execs      int64            `json:"execs"`
	Steps      int64            `json:"steps"`
	MaxLen     int              `json:"max_len"`
	Preempting int64            `json:"preempting"` // executions with >= 1 preemption of an enabled thread
	ValueAlts  int64            `json:"value_alts"` // executions that took a non-default value choice
	Pruned     int64            `json:"pruned"`
	GlobalKeys int64            `json:"global_keys"` // distinct global state keys seen (pruning runs only)
	Outcomes   map[string]int64 `json:"outcomes"`
	Truncated  bool             `json:"truncated"`
	Viols      []SchedViol      `json:"viols"`
	Deepest    []int32          `json:"deepest"`
	WallS      float64          `json:"wall_s"`
}

type explorer struct {
	t        *SchedTest
	job      SchedJob
	rep      *SchedReport
	visited  map[schedKey]int32 // state key -> fewest preemptions it was expanded with
	frontier []schedItem // depth-2 nodes, collected first (identically in every shard), then dealt out round-robin
	collect  bool
	stop     bool
	nrun     int64
}

type schedItem struct {
	prefix []int32
	cost   int
}

const schedShardDepth = 2
const schedMaxViolPerJob = 3

// ExploreJob runs one job in this process.
func ExploreJob(tests []*SchedTest, job SchedJob) *SchedReport {
	var t *SchedTest
	for _, c := range tests {
		if c.Name == job.Test {
			t = c
		}
	}
	if t == nil {
		schedFatal("unknown test %q", job.Test)
	}
	if job.NShards < 1 {
		job.NShards = 1
	}
	e := &explorer{t: t, job: job, rep: &SchedReport{Job: job, Outcomes: map[string]int64{}}}
	if job.Prune {
		e.visited = map[schedKey]int32{}
	}
	start := time.Now()
	e.collect = job.NShards > 1
	e.explore(nil, 0, 0)
	e.collect = false
	for i, it := range e.frontier {
		if i%job.NShards == job.Shard {
			e.explore(it.prefix, it.cost, schedShardDepth)
		}
	}
	e.rep.WallS = time.Since(start).Seconds()
	e.rep.GlobalKeys = int64(len(e.visited))
	return e.rep
}

func (e *explorer) keyMode() int {
	switch {
	case e.visited == nil:
		return 0
	case e.job.Bound < 0:
		return 1
	}
	return 2
}

func preemptions(tr []Step) int {
	n := 0
	for _, s := range tr {
		if s.Kind == 0 && s.Cur >= 0 && s.Cur != s.Chosen {
			n++
		}
	}
	return n
}

func (e *explorer) explore(prefix []int32, cost int, depth int) {
	if e.stop {
		return
	}
	counted := true
	if e.job.NShards > 1 {
		if depth == schedShardDepth && e.collect {
			e.frontier = append(e.frontier, schedItem{prefix, cost})
			return
		}
		if depth < schedShardDepth && e.job.Shard != 0 {
			counted = false // every shard re-runs the shallow nodes to enumerate the frontier; shard 0 accounts for them
		}
	}
	if e.rep.Execs&63 == 63 || e.nrun == 0 {
		if (e.job.Deadline > 0 && time.Now().Unix() > e.job.Deadline) || (e.job.MaxExecs > 0 && e.rep.Execs >= e.job.MaxExecs) {
			e.rep.Truncated = true
			e.stop = true
			return
		}
	}
	e.nrun++
	res := RunSchedule(e.t, prefix, e.keyMode(), false)
	if counted {
		e.rep.Execs++
		e.rep.Steps += int64(len(res.Trace))
		if len(res.Trace) > e.rep.MaxLen {
			e.rep.MaxLen = len(res.Trace)
			e.rep.Deepest = Choices(res.Trace)
		}
		if preemptions(res.Trace) > 0 {
			e.rep.Preempting++
		}
		for _, s := range res.Trace {
			if s.Kind == 1 && s.Chosen != 0 {
				e.rep.ValueAlts++
				break
			}
		}
		e.rep.Outcomes[res.Outcome]++
		if res.Viol != "" {
			e.confirm(res)
			if len(e.rep.Viols) >= schedMaxViolPerJob {
				e.stop = true
				return
			}
		}
	}
	tr := res.Trace
	for i := len(prefix); i < len(tr) && !e.stop; i++ {
		s := tr[i]
		if s.Kind == 1 {
			for alt := int32(0); alt < int32(s.Mask); alt++ {
				if alt != s.Chosen {
					e.explore(append(Choices(tr[:i]), alt), cost, depth+1)
				}
			}
			continue
		}
		if e.visited != nil {
			// the default continuation from step i on costs no preemption, so this state is reached with `cost` spent; a
			// previous expansion with <= cost spent covered every continuation that still fits the bound
			k := res.Keys[i]
			kc := int32(cost)
			if e.job.Bound < 0 {
				kc = 0
			}
			if prev, seen := e.visited[k]; seen && prev <= kc {
				e.rep.Pruned++
				break
			}
			e.visited[k] = kc
		}
		for alt := int32(0); alt < 64 && s.Mask>>uint(alt) != 0; alt++ {
			if s.Mask&(1<<uint(alt)) == 0 || alt == s.Chosen {
				continue
			}
			c := cost
			if s.Cur >= 0 && alt != s.Cur {
				c++
			}
			if e.job.Bound >= 0 && c > e.job.Bound {
				continue
			}
			e.explore(append(Choices(tr[:i]), alt), c, depth+1)
		}
	}
}

// confirm replays a failing schedule 5x; identical observations are required before it is believed.
func (e *explorer) confirm(res *ExecResult) {
	ch := Choices(res.Trace)
	for k := 0; k < 5; k++ {
		again := RunSchedule(e.t, ch, e.keyMode(), k == 0)
		if d := sameExec(res, again); d != "" {
			schedFatal("test %s: failing schedule is not reproducible (replay %d: %s) — nondeterminism outside the scheduler's control", e.t.Name, k+1, d)
		}
	}
	for _, v := range e.rep.Viols {
		if v.What == res.Viol {
			return
		}
	}
	e.rep.Viols = append(e.rep.Viols, SchedViol{Test: e.t.Name, Bound: e.job.Bound, What: res.Viol, Choices: ch,
		Trace: RenderTrace(res), Log: res.Log, Status: res.Status, Blocked: res.Blocked})
}

// ---------------------------------------------------------------- check protocol

// SchedPlan says which bounds to run per tier. Shards > 1 spreads one job over that many processes.
type SchedPlan struct {
	Bounds []SchedBound
}

// SchedBound is one entry of a plan.
type SchedBound struct {
	Bound  int
	Prune  bool
	Shards int
	Only   []string // restrict to these tests (nil = all)
}

type schedCase struct {
	Test    string   `json:"test"`
	Choices []int32  `json:"choices"`
	What    string   `json:"what"`
	Trace   string   `json:"trace"`
	Log     []string `json:"log"`
	Blocked []string `json:"blocked,omitempty"`
	Bound   int      `json:"bound"`
}

func boundName(b int) string {
	if b < 0 {
		return "unbounded"
	}
	return fmt.Sprint(b)
}

// SchedMain runs the Engine C protocol for a check (see the package comment in sched.go).
func SchedMain(r *Run, tests []*SchedTest, plan SchedPlan) {
	// worker process?
	if js := os.Getenv("VERIF_SCHED_JOB"); js != "" {
		var job SchedJob
		if err := json.Unmarshal([]byte(js), &job); err != nil {
			schedFatal("bad VERIF_SCHED_JOB: %v", err)
		}
		rep := ExploreJob(tests, job)
		b, _ := json.Marshal(rep)
		if err := os.WriteFile(os.Getenv("VERIF_SCHED_OUT"), b, 0o644); err != nil {
			schedFatal("cannot write job report: %v", err)
		}
		os.Exit(0)
	}
	if os.Getenv("VERIF_SCHED_PARENT") != "" {
		schedFatal("worker process started without a job (environment lost?)")
	}
	byName := map[string]*SchedTest{}
	for _, t := range tests {
		byName[t.Name] = t
	}
	if r.Replay != "" {
		var c schedCase
		if err := r.LoadReplay(&c); err != nil {
			r.HarnessError("cannot load replay: %v", err)
		}
		t := byName[c.Test]
		if t == nil {
			r.HarnessError("replay names unknown test %q", c.Test)
		}
		res := RunSchedule(t, c.Choices, 0, true)
		r.Traces.Add(1)
		r.States.Add(1)
		r.Transitions.Add(int64(len(res.Trace)))
		fmt.Printf("replay %s: status=%s outcome=%s\n  schedule: %s\n", c.Test, res.Status, res.Outcome, RenderTrace(res))
		for _, l := range res.Log {
			fmt.Printf("  | %s\n", l)
		}
		r.Sample(map[string]any{"test": c.Test, "schedule": RenderTrace(res), "outcome": res.Outcome})
		if res.Viol != "" {
			r.Violation("replay", res.Viol, c)
		} else {
			fmt.Printf("replay %s: no violation on this schedule\n", c.Test)
		}
		return
	}

	// determinism self-test, part 1: the default schedule of every test, twice, with goroutine-identity checks on
	for _, t := range tests {
		a := RunSchedule(t, nil, 0, true)
		b := RunSchedule(t, Choices(a.Trace), 0, true)
		if d := sameExec(a, b); d != "" {
			r.HarnessError("determinism self-test failed for %s: %s", t.Name, d)
		}
		r.Traces.Add(2)
		r.Transitions.Add(int64(2 * len(a.Trace)))
	}

	// jobs
	var jobs []SchedJob
	for _, pb := range plan.Bounds {
		for _, t := range tests {
			if len(pb.Only) > 0 {
				ok := false
				for _, n := range pb.Only {
					ok = ok || n == t.Name
				}
				if !ok {
					continue
				}
			}
			n := pb.Shards
			if n < 1 {
				n = 1
			}
			// cross-check knob: VERIF_SCHED_FORCE_PRUNE=0|1 overrides the plan, to compare the distinct outcomes of a
			// pruned search with those of the plain one
			switch os.Getenv("VERIF_SCHED_FORCE_PRUNE") {
			case "0":
				pb.Prune = false
			case "1":
				pb.Prune = true
			}
			for s := 0; s < n; s++ {
				jobs = append(jobs, SchedJob{Test: t.Name, Bound: pb.Bound, Prune: pb.Prune, Shard: s, NShards: n,
					Deadline: r.deadline.Unix()})
			}
		}
	}
	reps := make([]*SchedReport, len(jobs))
	scratch := os.Getenv("VERIF_SCRATCH")
	if scratch == "" {
		scratch = os.TempDir()
	}
	var wg sync.WaitGroup
	var emu sync.Mutex
	var firstErr string
	next := make(chan int) // jobs are handed out in plan order, so the lower bounds finish first when time is short
	runJob := func(i int) {
		js, _ := json.Marshal(jobs[i])
		out := filepath.Join(scratch, fmt.Sprintf("schedjob-%d.json", i))
		cmd := exec.Command(os.Args[0], os.Args[1:]...)
		cmd.Env = append(os.Environ(), "GOMAXPROCS=1", "VERIF_SCHED_PARENT=1", "VERIF_SCHED_JOB="+string(js), "VERIF_SCHED_OUT="+out)
		cmd.Stdout, cmd.Stderr = os.Stderr, os.Stderr
		err := cmd.Run()
		if err == nil {
			var b []byte
			if b, err = os.ReadFile(out); err == nil {
				rep := &SchedReport{}
				if err = json.Unmarshal(b, rep); err == nil {
					reps[i] = rep
				}
			}
		}
		if err != nil {
			emu.Lock()
			if firstErr == "" {
				firstErr = fmt.Sprintf("job %s failed: %v", js, err)
			}
			emu.Unlock()
		}
	}
	for w := 0; w < Workers(); w++ {
		wg.Add(1)
		go func() {
			defer wg.Done()
			for i := range next {
				runJob(i)
			}
		}()
	}
	for i := range jobs {
		next <- i
	}
	close(next)
	wg.Wait()
	if firstErr != "" {
		r.HarnessError("%s", firstErr)
	}

	// merge
	type acc struct {
		outcomes   map[string]int64
		execs      int64
		steps      int64
		preempting int64
		completed  []string
		maxLen     int
		deepest    []int32
		viol       bool
	}
	accs := map[string]*acc{}
	for _, t := range tests {
		accs[t.Name] = &acc{outcomes: map[string]int64{}}
	}
	truncated := map[string]bool{}
	var globalKeys, pruned int64
	type jb struct {
		test  string
		bound int
		prune bool
	}
	jobTrunc := map[jb]bool{}
	jobSeen := map[jb]bool{}
	var jbOrder []jb
	for _, rep := range reps {
		a := accs[rep.Job.Test]
		a.execs += rep.Execs
		a.steps += rep.Steps
		a.preempting += rep.Preempting
		for k, v := range rep.Outcomes {
			a.outcomes[k] += v
		}
		if rep.MaxLen > a.maxLen {
			a.maxLen, a.deepest = rep.MaxLen, rep.Deepest
		}
		globalKeys += rep.GlobalKeys
		pruned += rep.Pruned
		k := jb{rep.Job.Test, rep.Job.Bound, rep.Job.Prune}
		if !jobSeen[k] {
			jobSeen[k] = true
			jbOrder = append(jbOrder, k)
		}
		if rep.Truncated {
			jobTrunc[k] = true
			truncated[rep.Job.Test] = true
		}
		for _, v := range rep.Viols {
			a.viol = true
			jobTrunc[k] = true // a job that stops on violations did not complete its bound
			c := schedCase{Test: v.Test, Choices: v.Choices, What: v.What, Trace: v.Trace, Log: v.Log, Blocked: v.Blocked, Bound: v.Bound}
			if r.Violation(v.Test+": "+v.What, fmt.Sprintf("[%s, %s preemption(s), schedule %s] %s", v.Test, boundName(preemptionsOfCase(byName[v.Test], v.Choices)), v.Trace, v.What), c) {
				for _, l := range v.Log {
					fmt.Printf("  | %s\n", l)
				}
			}
		}
	}
	completed := map[string][]string{}
	for _, k := range jbOrder {
		if jobTrunc[k] {
			r.Capped(fmt.Sprintf("%s bound %s not completed", k.test, boundName(k.bound)))
			continue
		}
		n := boundName(k.bound)
		if k.prune {
			n += "(state-pruned)"
		}
		completed[k.test] = append(completed[k.test], n)
	}

	perTest := map[string]any{}
	var totalPreempt int64
	for _, t := range tests {
		a := accs[t.Name]
		r.Traces.Add(a.execs)
		r.Transitions.Add(a.steps)
		totalPreempt += a.preempting
		keys := make([]string, 0, len(a.outcomes))
		for k := range a.outcomes {
			keys = append(keys, k)
		}
		sort.Strings(keys)
		for i, k := range keys {
			r.States.Add(1)
			r.Nontrivial(t.Name + "|" + k)
			if i < 12 {
				r.OutcomeN(t.Name+": "+k, a.outcomes[k])
			} else {
				r.OutcomeN(t.Name+": (other outcomes)", a.outcomes[k])
			}
		}
		perTest[t.Name] = map[string]any{"executions": a.execs, "scheduling_decisions": a.steps, "distinct_outcomes": len(keys),
			"executions_with_preemption": a.preempting, "max_schedule_length": a.maxLen, "bounds_completed": completed[t.Name]}
		// determinism self-test, part 2: the longest recorded schedule replayed twice
		if a.deepest != nil {
			x := RunSchedule(t, a.deepest, 0, true)
			y := RunSchedule(t, a.deepest, 0, true)
			if d := sameExec(x, y); d != "" {
				r.HarnessError("determinism self-test (deepest schedule) failed for %s: %s", t.Name, d)
			}
			if r.WantSample() {
				r.Sample(map[string]any{"test": t.Name, "schedule": RenderTrace(x), "outcome": x.Outcome, "steps": len(x.Trace)})
			}
		}
		// vacuity guard
		if !a.viol && !truncated[t.Name] {
			if len(keys) < 2 {
				r.HarnessError("vacuous harness %s: every one of %d executions has the same outcome %v", t.Name, a.execs, keys)
			}
			if a.preempting == 0 {
				r.HarnessError("vacuous harness %s: no execution ever preempted an enabled thread", t.Name)
			}
		}
	}
	r.Set("per_test", perTest)
	r.Set("preempting_executions", totalPreempt)
	if globalKeys > 0 {
		r.Set("distinct_global_state_keys", globalKeys)
		r.Set("state_pruned_branches", pruned)
		r.States.Add(globalKeys)
	}
}

func preemptionsOfCase(t *SchedTest, ch []int32) int {
	if t == nil {
		return -1
	}
	res := RunSchedule(t, ch, 0, false)
	return preemptions(res.Trace)
}

// SchedSummary renders the per-test coverage for logs.
func SchedSummary(perTest map[string]any) string {
	var names []string
	for k := range perTest {
		names = append(names, k)
	}
	sort.Strings(names)
	var b strings.Builder
	for _, n := range names {
		fmt.Fprintf(&b, "%s=%v ", n, perTest[n])
	}
	return b.String()
}
