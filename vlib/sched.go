// Engine C — controlled-scheduler schedule explorer (DESIGN.md §2.4).
//
// # What it is
//
// A stateless model checker for real Go code whose blocking primitives have been replaced by the shim types of this
// package (by /verif/tools/instrument, or by hand in a harness). Exactly one goroutine ("thread") runs at a time; every
// shim operation is a scheduling point; at every point the scheduler knows which threads are enabled (their pending
// operation would not block in the modelled state of the shim objects) and picks one. The explorer enumerates choice
// sequences depth-first: default schedule first (keep the running thread while it is enabled, else lowest id), then
// for every point and every alternative whose cost fits the preemption bound, the same prefix + that alternative.
// Nothing is sampled; with Bound = -1 every interleaving of shim operations is executed.
//
// # API for harnesses (files sched*.go)
//
//	t := &vlib.SchedTest{Name: "h1", Setup: func(x *vlib.Exec) {
//	        obj := newRealObject()                       // fresh instance per execution
//	        x.Go("a", func() { obj.Op1() })              // threads; ids in creation order
//	        x.Go("b", func() { obj.Op2() })
//	        x.OnPoint = func() string { ... }            // invariant evaluated at EVERY scheduling point ("" = ok);
//	                                                     // runs with no thread active: read fields directly, no shim ops
//	        x.OnQuiescent = func() string { ... }        // evaluated whenever no thread is enabled (before timers fire,
//	                                                     // and at the end) — the place for lost-wake-up oracles
//	        x.AtEnd = func(status string) (outcome, viol string) { ... } // status = "done" | "deadlock"
//	        x.ExtraKey = func() string { ... }           // shared memory of the object under test, for state-key pruning
//	}}
//	vlib.Go(f) / vlib.GoNamed(name, f)  spawn a thread from inside a running thread (what `go f()` is rewritten to)
//	vlib.Yield()                        a bare scheduling point; vlib.Event(s) = a point that also appends s to the
//	                                    observation log (use it for call/return marks that the oracle orders)
//	x.Logf(...)                         observation log (compared on replays: determinism obligation)
//	x.Fail(msg)                         report a violation from inside a thread or a hook (first one wins)
//	x.LastRan()                         in OnPoint: name of the thread whose atomic block just ended
//	vlib.ChanPeek(c)                    oracle-side look at a shim channel (len, closed) without a scheduling point
//
// Shim types (drop-in for the sync / chan / context / time constructs, see sched_shims.go, sched_chan.go,
// sched_ctxtime.go): Mutex, RWMutex, Cond, WaitGroup, Once, Pool, Chan[T] (MakeChan, Send, Recv, Recv2, Close, Len, Cap,
// NewSelect/AddRecv/AddSend/Wait), WithCancel/WithTimeout/WithDeadline/CtxDone, Now/Since/Sleep/NewTimer/After/AfterFunc/
// NewTicker, AtomicInt32/Int64/Uint32/Uint64/Bool/Pointer[T]. Outside a scheduled thread (setup code, hooks, or a
// process that runs no explorer) every shim operates directly on its modelled state and PANICS if it would block.
//
// Exploration:
//
//	rep := vlib.ExploreJob(tests, vlib.SchedJob{Test: "h1", Bound: 2})            // in this process
//	vlib.SchedMain(r, tests, vlib.SchedPlan{Bounds: []vlib.SchedBound{            // parent: one process per job
//	        {Bound: 0}, {Bound: 1}, {Bound: 2, Shards: 4},                        // (GOMAXPROCS=1 each, handed out in
//	        {Bound: -1, Prune: true, Shards: 8, Only: []string{"h1"}}}})          // plan order), merges, reports
//
// Bound = maximum number of preemptions (switching away from a thread that could have continued); switches at
// blocking operations and value choices are free. Bound -1 = every schedule. Shards = the depth-2 subtrees of the
// choice tree are dealt round-robin to that many processes. Prune = state-key pruning: a global state (shim objects,
// per-thread hashes of their own operation/result histories, virtual clock, the harness' ExtraKey) that was already
// expanded with no more preemptions spent is not expanded again. This is sound only if ExtraKey covers all shared
// memory the future (and the oracle's future verdicts) depends on and thread-local state is a function of the thread's
// own operation history — argue it in the check's NOTES.md. SchedTest.Quiet (QuietPool|QuietAtomic|QuietUnlock) removes
// scheduling points the harness declares irrelevant (see the constants).
//
// SchedMain implements the whole protocol of a check: determinism self-test (one recorded schedule per test replayed
// twice), iterated bounds, 5x replay of every failing schedule before it is reported, vacuity guard (at least two
// distinct outcomes over all tests and at least one real preemption), evidence counters (states = distinct final states,
// transitions = scheduling decisions executed, executions = schedules run), r.Violation with a replayable case, and
// --replay. A replayed prefix that meets a different enabled set is a hard harness error (exit 2).
//
// # Semantics modelled (trusted base)
//
// Mutex: Lock enabled iff unlocked; which blocked locker proceeds is a scheduler choice. RWMutex: no writer preference
// (superset of Go's behaviours). Cond: Wait = atomically unlock+enqueue, then blocked until signalled, then Lock;
// Signal wakes ANY one waiter (value choice), no spurious wake-ups. Channels: Go semantics with two-phase blocking
// operations (an operation first tries to complete and otherwise parks; only parked operations are rendezvous partners,
// so a select-with-default poll can miss a peer that has not parked yet, exactly as in Go); select with several ready
// cases = value choice; several parked peers = value choice. Context: Done() of a shim context is a shim channel closed
// by cancel; virtual time advances only at quiescence (no thread enabled) to the next timer. Memory is sequentially
// consistent and accesses that are not shim operations are invisible to the scheduler (the free-running -race pass
// covers data races).
package vlib

import (
	"fmt"
	"hash/fnv"
	"os"
	"runtime"
	"strconv"
	"strings"
	"time"
)

// Step is one recorded decision: a thread choice (Kind 0: Mask = enabled thread set, Cur = running thread if it was
// enabled else -1) or a value choice (Kind 1: Mask = number of options).
type Step struct {
	Mask   uint64
	Chosen int32
	Cur    int32
	Kind   uint8
}

type schedKey [2]uint64

// Thread is one controlled goroutine.
type Thread struct {
	id     int
	name   string
	wake   chan struct{}
	ready  func() bool // enabled predicate of the pending operation; nil = enabled
	desc   string      // pending operation, for deadlock reports
	fn     func()
	done   bool
	points int
	hist   uint64 // hash of the thread's own operation history (program counter for state keys)
	goid   int64
	// channel/select parking (phase 2 of a blocking channel operation)
	selCases []selCase
	selDone  bool
	selIdx   int
	selVal   any
	selOk    bool
	selPanic bool
	selSeq   int64
	// cond parking
	condSignalled bool
}

// Exec is one execution of a SchedTest under one choice sequence.
type Exec struct {
	OnPoint     func() string
	OnQuiescent func() string
	AtEnd       func(status string) (outcome string, viol string)
	ExtraKey    func() string
	MaxSteps    int

	threads []*Thread
	cur     *Thread
	last    *Thread // thread that executed the block which ended at the current scheduling point
	prefix  []int32
	trace   []Step
	keys    []schedKey
	wantKey bool
	keyCur  bool // bounded search: the running thread is part of the key (it decides what the next switch costs)

	epoch    uint64
	objs     []schedObj
	viol     string
	log      []string
	status   string
	ended    bool
	aborting bool
	endCh    chan struct{}
	exitCh   chan struct{}
	now      int64
	timers   []*schedTimer
	timerSeq int64
	parkSeq  int64
	paranoid bool
	horizon  int64
	quiet    uint
	keyBuf   strings.Builder
	tmp      [24]byte
}

type schedObj interface{ schedState(b *strings.Builder) }

// schedReg is embedded in every shim object: lazily (re-)registers it with the current execution.
type schedReg struct {
	epoch uint64
	id    int
}

var (
	schedCur   *Exec
	schedEpoch uint64
	freeRun    bool // free-running mode (race pass): Go = real goroutines, contexts = real contexts
)

func schedFatal(format string, a ...any) {
	fmt.Fprintf(os.Stderr, "HARNESS-ERROR: scheduler: %s\n", fmt.Sprintf(format, a...))
	os.Exit(2)
}

// inThread reports whether a scheduled thread is running (shim ops then are scheduling points). While an ended
// execution is being unwound, any shim operation reached by a parked thread's deferred calls ends that goroutine
// instead of touching the modelled state.
func inThread() *Exec {
	x := schedCur
	if x == nil {
		return nil
	}
	if x.aborting {
		runtime.Goexit()
	}
	if x.cur == nil {
		return nil
	}
	return x
}

// Go registers a thread (setup) or spawns one from a running thread. In free-running mode it is a real goroutine.
func Go(f func()) { GoNamed("", f) }

// GoNamed is Go with a name used in traces.
func GoNamed(name string, f func()) {
	if freeRun {
		freeGo(f)
		return
	}
	x := schedCur
	if x == nil {
		panic("vlib.Go outside an execution (uninstrumented caller or no explorer running)")
	}
	x.Go(name, f)
}

// Go adds a thread to the execution.
func (x *Exec) Go(name string, f func()) {
	if len(x.threads) >= 64 {
		schedFatal("more than 64 threads")
	}
	t := &Thread{id: len(x.threads), name: name, fn: f}
	if t.id < len(schedWakePool) {
		t.wake = schedWakePool[t.id]
	} else {
		t.wake = make(chan struct{}, 1)
		schedWakePool = append(schedWakePool, t.wake)
	}
	if name == "" {
		t.name = fmt.Sprintf("t%d", t.id)
	}
	x.threads = append(x.threads, t)
	if c := x.cur; c != nil {
		c.hist = c.hist*1099511628211 ^ uint64(0x60+t.id)
	}
	go x.threadMain(t)
}

func (x *Exec) threadMain(t *Thread) {
	defer func() {
		r := recover()
		if x.aborting {
			x.exitCh <- struct{}{}
			return
		}
		if r != nil {
			buf := make([]byte, 4096)
			buf = buf[:runtime.Stack(buf, false)]
			x.Fail(fmt.Sprintf("thread %s panicked: %v", t.name, r))
			x.log = append(x.log, "panic stack: "+string(buf))
		}
		t.done = true
		t.selCases = nil
		x.schedule(t)
	}()
	<-t.wake
	if x.aborting {
		return
	}
	if x.paranoid {
		t.goid = curGoid()
	}
	t.fn()
}

func curGoid() int64 {
	var buf [64]byte
	s := string(buf[:runtime.Stack(buf[:], false)])
	s = strings.TrimPrefix(s, "goroutine ")
	var id int64
	for i := 0; i < len(s) && s[i] >= '0' && s[i] <= '9'; i++ {
		id = id*10 + int64(s[i]-'0')
	}
	return id
}

// Fail records a violation (the first one wins); the execution stops at the next scheduling point.
func (x *Exec) Fail(msg string) {
	if x.viol == "" {
		x.viol = msg
	}
}

// Logf appends to the observation log.
func (x *Exec) Logf(format string, a ...any) { x.log = append(x.log, fmt.Sprintf(format, a...)) }

// Now is the virtual time in ns since the start of the execution.
func (x *Exec) Now() int64 { return x.now }

// Blocked describes the unfinished threads (for deadlock reports).
func (x *Exec) Blocked() []string {
	var out []string
	for _, t := range x.threads {
		if !t.done {
			out = append(out, fmt.Sprintf("%s@%s", t.name, t.desc))
		}
	}
	return out
}

// LastRan is the name of the thread whose atomic block ended at the current scheduling point ("" at the very first
// point). For use in OnPoint hooks: exactly that thread's code ran since the previous call of the hook.
func (x *Exec) LastRan() string {
	if x.last == nil {
		return ""
	}
	return x.last.name
}

// CurExec returns the execution in progress (nil outside one).
func CurExec() *Exec { return schedCur }

// ThreadID returns the id of the running thread (-1 outside a thread).
func ThreadID() int {
	if x := inThread(); x != nil {
		return x.cur.id
	}
	return -1
}

// Yield is a bare scheduling point.
func Yield() {
	if freeRun {
		runtime.Gosched()
		return
	}
	if x := inThread(); x != nil {
		x.point(nil, "yield", 1)
	}
}

// Event is a scheduling point that appends s to the observation log when it executes; all events are mutually
// dependent, so every relative order of events of different threads is explored.
func Event(s string) {
	if x := inThread(); x != nil {
		x.point(nil, "event", 2)
		x.log = append(x.log, s)
	}
}

// point announces the pending operation of the running thread and returns when the scheduler lets it execute.
func (x *Exec) point(ready func() bool, desc string, opcode uint64) {
	t := x.cur
	if x.aborting {
		runtime.Goexit()
	}
	if x.paranoid && curGoid() != t.goid {
		schedFatal("shim operation %q executed by a goroutine the scheduler does not control (uninstrumented `go`?)", desc)
	}
	t.ready, t.desc = ready, desc
	t.points++
	t.hist = t.hist*1099511628211 ^ opcode
	x.schedule(t)
	t.ready = nil
}

func (x *Exec) noteResult(v uint64) {
	if t := x.cur; t != nil {
		t.hist = t.hist*1099511628211 ^ (v + 0x9e3779b97f4a7c15)
	}
}

func (x *Exec) enabledMask() (mask uint64, unfinished int) {
	for _, t := range x.threads {
		if t.done {
			continue
		}
		unfinished++
		if t.ready == nil || t.ready() {
			mask |= 1 << uint(t.id)
		}
	}
	return
}

// schedule is run by the thread that just reached a point (or finished); it picks the next thread and hands over.
func (x *Exec) schedule(from *Thread) {
	x.cur = nil
	x.last = from
	if x.OnPoint != nil && x.viol == "" {
		if v := x.OnPoint(); v != "" {
			x.Fail(v)
		}
	}
	if x.viol != "" {
		x.finishFrom(from, "violation")
		return
	}
	var mask uint64
	for {
		var unfinished int
		mask, unfinished = x.enabledMask()
		if mask != 0 {
			break
		}
		if x.OnQuiescent != nil {
			if v := x.OnQuiescent(); v != "" {
				x.Fail(v)
				x.finishFrom(from, "violation")
				return
			}
		}
		if unfinished == 0 {
			x.finishFrom(from, "done")
			return
		}
		if !x.fireTimer() {
			x.finishFrom(from, "deadlock")
			return
		}
	}
	i := len(x.trace)
	curID := int32(-1)
	if from != nil && !from.done && mask&(1<<uint(from.id)) != 0 {
		curID = int32(from.id)
	}
	var next int32
	if i < len(x.prefix) {
		next = x.prefix[i]
		if next < 0 || next >= 64 || mask&(1<<uint(next)) == 0 {
			schedFatal("replay divergence at step %d: recorded choice %d is not in the enabled set %b (nondeterministic harness or code)", i, next, mask)
		}
	} else if curID >= 0 {
		next = curID
	} else {
		next = 0
		for mask&(1<<uint(next)) == 0 {
			next++
		}
	}
	if x.wantKey {
		if i >= len(x.prefix) { // the explorer only branches (and therefore only looks at keys) beyond the replayed prefix
			x.keys = append(x.keys, x.stateKey(curID))
		} else {
			x.keys = append(x.keys, schedKey{})
		}
	}
	x.trace = append(x.trace, Step{Mask: mask, Chosen: next, Cur: curID})
	if len(x.trace) > x.MaxSteps {
		schedFatal("execution exceeds %d steps (livelock or MaxSteps too small); blocked: %v", x.MaxSteps, x.Blocked())
	}
	nt := x.threads[next]
	x.cur = nt
	if nt == from {
		return
	}
	nt.wake <- struct{}{}
	if from == nil || from.done {
		return
	}
	<-from.wake
	if x.aborting {
		runtime.Goexit()
	}
}

func (x *Exec) finishFrom(from *Thread, status string) {
	x.finish(status)
	if from != nil && !from.done {
		<-from.wake // parked until aborted
		runtime.Goexit()
	}
}

func (x *Exec) finish(status string) {
	x.ended = true
	x.status = status
	x.cur = nil
	x.endCh <- struct{}{}
}

// Choose is a value choice with n options made by the running thread (recorded and explored like a thread choice,
// cost 0). Outside a thread it returns 0.
func (x *Exec) choose(n int) int {
	if n <= 1 {
		return 0
	}
	i := len(x.trace)
	c := int32(0)
	if i < len(x.prefix) {
		c = x.prefix[i]
		if c < 0 || int(c) >= n {
			schedFatal("replay divergence at step %d: recorded value choice %d of %d", i, c, n)
		}
	}
	if x.wantKey {
		x.keys = append(x.keys, schedKey{})
	}
	x.trace = append(x.trace, Step{Mask: uint64(n), Chosen: c, Cur: -1, Kind: 1})
	x.noteResult(uint64(c))
	return int(c)
}

// Choose lets a harness thread branch over n alternatives (all are explored).
func Choose(n int) int {
	if x := inThread(); x != nil {
		return x.choose(n)
	}
	return 0
}

func (r *schedReg) register(x *Exec, o schedObj) bool {
	if r.epoch == x.epoch {
		return false
	}
	r.epoch = x.epoch
	r.id = len(x.objs)
	x.objs = append(x.objs, o)
	return true
}

func wInt(b *strings.Builder, v int64) {
	var tmp [24]byte
	b.Write(strconv.AppendInt(tmp[:0], v, 36))
	b.WriteByte(';')
}

func (x *Exec) stateKey(curID int32) schedKey {
	b := &x.keyBuf
	b.Reset()
	if x.keyCur {
		wInt(b, int64(curID))
	}
	for _, t := range x.threads {
		wInt(b, int64(t.points))
		b.Write(strconv.AppendUint(x.tmp[:0], t.hist, 36))
		if t.done {
			b.WriteByte('D')
		}
		if t.selDone {
			b.WriteByte('S')
		}
		if t.condSignalled {
			b.WriteByte('C')
		}
		b.WriteByte(';')
	}
	for _, o := range x.objs {
		o.schedState(b)
		b.WriteByte('|')
	}
	wInt(b, x.now)
	wInt(b, int64(len(x.timers)))
	if x.ExtraKey != nil {
		b.WriteString(x.ExtraKey())
	}
	h := fnv.New128a()
	h.Write([]byte(b.String()))
	var sum [16]byte
	s := h.Sum(sum[:0])
	var k schedKey
	for i := 0; i < 8; i++ {
		k[0] = k[0]<<8 | uint64(s[i])
		k[1] = k[1]<<8 | uint64(s[8+i])
	}
	return k
}

// ---------------------------------------------------------------- running one execution

// SchedTest is one harness: Setup builds a fresh instance of the real object and its threads for every execution.
type SchedTest struct {
	Name     string
	Setup    func(x *Exec)
	MaxSteps int   // default 4000
	Quiet    uint  // QuietPool|QuietAtomic|QuietUnlock: these non-blocking shims execute without being scheduling points
	Horizon  int64 // virtual-time horizon in ns beyond which timers no longer fire (default 1h)
}

// ExecResult is what one execution produced.
type ExecResult struct {
	Trace   []Step
	Keys    []schedKey
	Status  string // done | deadlock | violation
	Outcome string
	Viol    string
	Log     []string
	Blocked []string
	Threads []string
}

// Quiet flags: operations that never block and whose interleaving a harness declares irrelevant to its property.
const (
	QuietPool   uint = 1 << iota // Pool.Get/Put (deterministic LIFO free list either way)
	QuietAtomic                  // atomic loads/stores/adds (e.g. statistics counters)
	// QuietUnlock: Mutex/RWMutex Unlock is not a scheduling point of its own. Sound for data-race-free code: a thread
	// that would run between the Unlock point and the Unlock either blocks on that lock or is independent of it, so the
	// same behaviours are reached from the neighbouring points. Roughly halves the points of lock-heavy code.
	QuietUnlock
)

var schedWatchdog = 20 * time.Second

// channels and the watchdog timer are reused across executions (they are always drained when an execution ends)
var (
	schedWakePool []chan struct{}
	schedEndCh    = make(chan struct{}, 1)
	schedExitCh   = make(chan struct{}, 64)
	schedTimerW   *time.Timer
)

// RunSchedule executes t once under the given choice prefix (default policy afterwards).
// keyMode: 0 = no state keys, 1 = keys for an unbounded search, 2 = keys for a preemption-bounded search.
func RunSchedule(t *SchedTest, prefix []int32, keyMode int, paranoid bool) *ExecResult {
	if schedCur != nil {
		schedFatal("nested executions")
	}
	schedEpoch++
	x := &Exec{prefix: prefix, epoch: schedEpoch, endCh: schedEndCh, exitCh: schedExitCh,
		wantKey: keyMode > 0, keyCur: keyMode > 1, MaxSteps: t.MaxSteps, paranoid: paranoid, horizon: t.Horizon, quiet: t.Quiet}
	if x.MaxSteps == 0 {
		x.MaxSteps = 4000
	}
	if x.horizon == 0 {
		x.horizon = int64(time.Hour)
	}
	schedCur = x
	t.Setup(x)
	if len(x.threads) == 0 {
		schedFatal("test %s has no threads", t.Name)
	}
	go x.schedule(nil)
	if schedTimerW == nil {
		schedTimerW = time.NewTimer(schedWatchdog)
	} else {
		schedTimerW.Reset(schedWatchdog)
	}
	select {
	case <-x.endCh:
		schedTimerW.Stop()
	case <-schedTimerW.C:
		cur := "?"
		if c := x.cur; c != nil {
			cur = c.name + " after " + c.desc
		}
		schedFatal("test %s: no scheduling point reached for %v; running thread: %s (an uninstrumented blocking operation on the explored path?)", t.Name, schedWatchdog, cur)
	}
	res := &ExecResult{Trace: x.trace, Keys: x.keys, Status: x.status, Viol: x.viol, Blocked: x.Blocked()}
	for _, th := range x.threads {
		res.Threads = append(res.Threads, th.name)
	}
	// the end-of-execution oracle sees the state exactly as the last scheduling point left it (threads still parked)
	if x.AtEnd != nil && x.status != "violation" {
		o, v := x.AtEnd(x.status)
		res.Outcome = o
		if v != "" && res.Viol == "" {
			res.Viol = v
		}
	}
	// unwind parked threads: every shim operation they (or their deferred calls) reach now ends the goroutine
	x.aborting = true
	n := 0
	for _, th := range x.threads {
		if !th.done {
			th.wake <- struct{}{}
			n++
		}
	}
	for ; n > 0; n-- {
		<-x.exitCh
	}
	x.cur = nil
	if res.Outcome == "" {
		res.Outcome = x.status
	}
	if res.Viol != "" {
		res.Status = "violation"
	}
	res.Log = x.log
	schedCur = nil
	return res
}

// Choices extracts the full choice sequence of a trace.
func Choices(tr []Step) []int32 {
	out := make([]int32, len(tr))
	for i, s := range tr {
		out[i] = s.Chosen
	}
	return out
}

// RenderTrace prints a schedule compactly: thread names in the order they were run, "!" marks a preemption.
func RenderTrace(res *ExecResult) string {
	var b strings.Builder
	for i, s := range res.Trace {
		if i > 0 {
			b.WriteByte(' ')
		}
		if s.Kind == 1 {
			fmt.Fprintf(&b, "?%d/%d", s.Chosen, s.Mask)
			continue
		}
		if s.Cur >= 0 && s.Cur != s.Chosen {
			b.WriteByte('!')
		}
		if int(s.Chosen) < len(res.Threads) {
			b.WriteString(res.Threads[s.Chosen])
		} else {
			fmt.Fprintf(&b, "t%d", s.Chosen)
		}
	}
	return b.String()
}

func sameExec(a, b *ExecResult) string {
	if len(a.Trace) != len(b.Trace) {
		return fmt.Sprintf("trace length %d vs %d", len(a.Trace), len(b.Trace))
	}
	for i := range a.Trace {
		if a.Trace[i] != b.Trace[i] {
			return fmt.Sprintf("step %d differs: %+v vs %+v", i, a.Trace[i], b.Trace[i])
		}
	}
	if a.Status != b.Status || a.Outcome != b.Outcome || a.Viol != b.Viol {
		return fmt.Sprintf("result differs: %s/%s/%q vs %s/%s/%q", a.Status, a.Outcome, a.Viol, b.Status, b.Outcome, b.Viol)
	}
	if len(a.Log) != len(b.Log) {
		return fmt.Sprintf("log length %d vs %d", len(a.Log), len(b.Log))
	}
	for i := range a.Log {
		if a.Log[i] != b.Log[i] && !strings.HasPrefix(a.Log[i], "panic stack: ") {
			return fmt.Sprintf("log line %d differs: %q vs %q", i, a.Log[i], b.Log[i])
		}
	}
	return ""
}
