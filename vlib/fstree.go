package vlib

import (
	"crypto/sha256"
	"encoding/hex"
	"fmt"
	"io/fs"
	"os"
	"path/filepath"
	"sort"
	"strings"
	"time"
)

// FSTree is a snapshot of a directory tree: regular files (content hash, mtime) and directories, keyed by the
// slash-separated path relative to the root. Used by the generator-facing checks (C14, C15, C16).
type FSTree struct {
	Files map[string]FSFile
	Dirs  map[string]bool
	Other map[string]string // anything that is neither a regular file nor a directory (symlinks, ...): path -> mode
}

// FSFile is one regular file of a snapshot.
type FSFile struct {
	Hash  string // hex sha256 of the content
	Size  int64
	MTime time.Time
}

// SnapshotTree walks root (which may be absent: then the snapshot is empty and Absent is reported).
func SnapshotTree(root string) (t FSTree, absent bool, err error) {
	t = FSTree{Files: map[string]FSFile{}, Dirs: map[string]bool{}, Other: map[string]string{}}
	if _, e := os.Lstat(root); e != nil {
		if os.IsNotExist(e) {
			return t, true, nil
		}
		return t, false, e
	}
	err = filepath.Walk(root, func(path string, info fs.FileInfo, err error) error {
		if err != nil {
			return err
		}
		rel, _ := filepath.Rel(root, path)
		rel = filepath.ToSlash(rel)
		if rel == "." {
			return nil
		}
		switch {
		case info.IsDir():
			t.Dirs[rel] = true
		case info.Mode().IsRegular():
			b, e := os.ReadFile(path)
			if e != nil {
				return e
			}
			h := sha256.Sum256(b)
			t.Files[rel] = FSFile{Hash: hex.EncodeToString(h[:]), Size: info.Size(), MTime: info.ModTime()}
		default:
			t.Other[rel] = info.Mode().String()
		}
		return nil
	})
	return t, false, err
}

// Sub returns the part of the snapshot below prefix (a relative slash path), re-rooted at prefix.
func (t FSTree) Sub(prefix string) FSTree {
	out := FSTree{Files: map[string]FSFile{}, Dirs: map[string]bool{}, Other: map[string]string{}}
	p := strings.TrimSuffix(prefix, "/") + "/"
	for k, v := range t.Files {
		if strings.HasPrefix(k, p) {
			out.Files[k[len(p):]] = v
		}
	}
	for k := range t.Dirs {
		if strings.HasPrefix(k, p) {
			out.Dirs[k[len(p):]] = true
		}
	}
	for k, v := range t.Other {
		if strings.HasPrefix(k, p) {
			out.Other[k[len(p):]] = v
		}
	}
	return out
}

// Key is a canonical text of the snapshot (paths, content hashes, directories; no mtimes).
func (t FSTree) Key() string {
	var lines []string
	for k, v := range t.Files {
		lines = append(lines, "F "+k+" "+v.Hash[:16])
	}
	for k := range t.Dirs {
		lines = append(lines, "D "+k)
	}
	for k, v := range t.Other {
		lines = append(lines, "O "+k+" "+v)
	}
	sort.Strings(lines)
	return strings.Join(lines, "\n")
}

// KeyHash is a short hash of Key.
func (t FSTree) KeyHash() string {
	h := sha256.Sum256([]byte(t.Key()))
	return hex.EncodeToString(h[:10])
}

// DiffTrees lists the differences between two snapshots (paths, content, kinds; mtimes are not compared), at most
// max lines; empty means identical.
func DiffTrees(a, b FSTree, aName, bName string, max int) []string {
	var out []string
	add := func(s string) {
		out = append(out, s)
	}
	keys := map[string]bool{}
	for k := range a.Files {
		keys[k] = true
	}
	for k := range b.Files {
		keys[k] = true
	}
	sorted := make([]string, 0, len(keys))
	for k := range keys {
		sorted = append(sorted, k)
	}
	sort.Strings(sorted)
	for _, k := range sorted {
		fa, oka := a.Files[k]
		fb, okb := b.Files[k]
		switch {
		case oka && !okb:
			add(fmt.Sprintf("file %q only in %s", k, aName))
		case !oka && okb:
			add(fmt.Sprintf("file %q only in %s", k, bName))
		case fa.Hash != fb.Hash:
			add(fmt.Sprintf("file %q differs (%s %s… %d bytes, %s %s… %d bytes)", k, aName, fa.Hash[:8], fa.Size, bName, fb.Hash[:8], fb.Size))
		}
	}
	dk := map[string]bool{}
	for k := range a.Dirs {
		dk[k] = true
	}
	for k := range b.Dirs {
		dk[k] = true
	}
	sorted = sorted[:0]
	for k := range dk {
		sorted = append(sorted, k)
	}
	sort.Strings(sorted)
	for _, k := range sorted {
		if a.Dirs[k] != b.Dirs[k] {
			if a.Dirs[k] {
				add(fmt.Sprintf("directory %q only in %s", k, aName))
			} else {
				add(fmt.Sprintf("directory %q only in %s", k, bName))
			}
		}
	}
	ok := map[string]bool{}
	for k := range a.Other {
		ok[k] = true
	}
	for k := range b.Other {
		ok[k] = true
	}
	sorted = sorted[:0]
	for k := range ok {
		sorted = append(sorted, k)
	}
	sort.Strings(sorted)
	for _, k := range sorted {
		if a.Other[k] != b.Other[k] {
			add(fmt.Sprintf("special file %q: %s %q, %s %q", k, aName, a.Other[k], bName, b.Other[k]))
		}
	}
	if max > 0 && len(out) > max {
		n := len(out) - max
		out = append(out[:max], fmt.Sprintf("… and %d more differences", n))
	}
	return out
}

// SetTreeMTime sets the mtime of every regular file below root to ts.
func SetTreeMTime(root string, ts time.Time) error {
	return filepath.Walk(root, func(path string, info fs.FileInfo, err error) error {
		if err != nil {
			return err
		}
		if info.Mode().IsRegular() {
			return os.Chtimes(path, ts, ts)
		}
		return nil
	})
}
