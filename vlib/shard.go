package vlib

// Process sharding for allocation-heavy harnesses (added for C21-C23). The tlast parsers allocate several KB per case;
// 16 goroutines in one process then spend most of their time in GC hand-shakes and page faults, while 16
// single-threaded processes run at full speed. RunSharded starts Workers() children of the same test binary; each
// child executes body with a *Shard (K of W), collects counters / outcomes / distinct keys / violations locally and
// writes them to a JSON file; the parent merges everything into the Run (violations in key order, so the result does
// not depend on scheduling).

import (
	"bytes"
	"encoding/base64"
	"encoding/binary"
	"runtime/debug"
	"strings"
	"syscall"
	"encoding/json"
	"fmt"
	"os"
	"os/exec"
	"path/filepath"
	"sort"
	"sync"
	"time"

	"crypto/sha256"
)

type shardViol struct {
	Key    string          `json:"key"`
	What   string          `json:"what"`
	Detail json.RawMessage `json:"detail"`
}

type shardOut struct {
	States, Transitions, Traces, Evaluations int64
	Outcomes                                 map[string]int64
	Distinct                                 []string // base64 of 16-byte hashes
	Viols                                    []shardViol
	Caps                                     []string
	Extra                                    map[string]int64
	Samples                                  []json.RawMessage
}

// Shard is the child-side collector. Not safe for concurrent use (a child is single-threaded by design).
type Shard struct {
	K, W     int
	Tier     string
	Seed     int64
	deadline time.Time
	out      shardOut
	distinct map[[16]byte]struct{}
	seenViol map[string]bool
	side     []byte // shared file mapping holding the case being executed (survives the death of the process)
}

// Current records the case the child is about to execute (a JSON-marshalable replay detail, the same value that would
// be passed to Violation). If the child then dies in a way recover() cannot catch (fatal error: stack overflow,
// os.Exit in the code under test, out of memory) the parent re-runs exactly this case in fresh processes and, if they
// die too, reports it as a violation keyed by the case.
func (s *Shard) Current(detail any) {
	if s.side == nil {
		return
	}
	b, err := json.Marshal(detail)
	if err != nil || len(b) > len(s.side)-8 {
		binary.LittleEndian.PutUint32(s.side, 0)
		return
	}
	binary.LittleEndian.PutUint32(s.side, 0)
	copy(s.side[8:], b)
	binary.LittleEndian.PutUint32(s.side, uint32(len(b)))
}

func openSide(path string) []byte {
	f, err := os.OpenFile(path, os.O_RDWR|os.O_CREATE|os.O_TRUNC, 0o644)
	if err != nil {
		return nil
	}
	defer f.Close()
	if f.Truncate(4<<20) != nil {
		return nil
	}
	m, err := syscall.Mmap(int(f.Fd()), 0, 4<<20, syscall.PROT_READ|syscall.PROT_WRITE, syscall.MAP_SHARED)
	if err != nil {
		return nil
	}
	return m
}

func readSide(path string) json.RawMessage {
	b, err := os.ReadFile(path)
	if err != nil || len(b) < 8 {
		return nil
	}
	n := int(binary.LittleEndian.Uint32(b))
	if n == 0 || 8+n > len(b) || !json.Valid(b[8:8+n]) {
		return nil
	}
	return json.RawMessage(b[8 : 8+n])
}

// runReplayChild executes one recorded case (file in replay-artefact format) in a fresh process of this test binary and
// reports whether that process died (neither a normal verdict 0/1 nor a harness error), with the head of its stderr.
func runReplayChild(testName, replayFile string) (died bool, head string) {
	cmd := exec.Command(os.Args[0], "-test.run", "^"+testName+"$", "-test.timeout", "0")
	cmd.Env = append(os.Environ(), "VERIF_REPLAY="+replayFile, "VERIF_REPLAY_CHILD=1", "VERIF_SHARD_SPEC=")
	var eb bytes.Buffer
	cmd.Stderr = &eb
	cmd.Stdout = &eb
	err := cmd.Run()
	ee, ok := err.(*exec.ExitError)
	if err == nil || ok && ee.ExitCode() == 1 || strings.Contains(eb.String(), "HARNESS-ERROR") {
		return false, ""
	}
	for _, l := range strings.Split(eb.String(), "\n") {
		if strings.HasPrefix(l, "fatal error") || strings.HasPrefix(l, "panic") || strings.HasPrefix(l, "runtime:") || strings.HasPrefix(l, "signal") {
			return true, l
		}
	}
	return true, fmt.Sprint(err)
}

// ReplayDied is called first in a harness's replay branch: it runs the replay once in a fresh process; if that process
// dies, the violation is reported here and true is returned (the caller must not execute the case in this process).
func ReplayDied(r *Run, testName string) bool {
	if os.Getenv("VERIF_REPLAY_CHILD") != "" {
		debug.SetMaxStack(64 << 20)
		return false
	}
	if died, head := runReplayChild(testName, r.Replay); died {
		fmt.Printf("replay: the case kills the process: %s\n", head)
		r.States.Add(1)
		r.Transitions.Add(1)
		r.Traces.Add(1)
		r.Violation("replay", "executing this case kills the process: "+head, map[string]any{"replay_of": r.Replay})
		return true
	}
	return false
}

func (s *Shard) Quick() bool { return s.Tier != "thorough" }

// Mine reports whether work item i belongs to this shard.
func (s *Shard) Mine(i int) bool { return i%s.W == s.K }

func (s *Shard) Expired() bool { return time.Now().After(s.deadline) }

func (s *Shard) Case(transitions int64) {
	s.out.States++
	s.out.Traces++
	s.out.Evaluations++
	s.out.Transitions += transitions
}

func (s *Shard) Outcome(class string) { s.out.Outcomes[class]++ }

func (s *Shard) Add(counter string, n int64) { s.out.Extra[counter] += n }

func (s *Shard) Nontrivial(key string) {
	h := sha256.Sum256([]byte(key))
	var k [16]byte
	copy(k[:], h[:16])
	s.distinct[k] = struct{}{}
}

func (s *Shard) Capped(what string) {
	for _, c := range s.out.Caps {
		if c == what {
			return
		}
	}
	s.out.Caps = append(s.out.Caps, what)
}

func (s *Shard) Sample(x any) {
	if len(s.out.Samples) < 3 {
		if b, err := json.Marshal(x); err == nil {
			s.out.Samples = append(s.out.Samples, b)
		}
	}
}

// Violation records a violation; at most 200 distinct keys per child are kept (the count of all goes to the outcomes).
func (s *Shard) Violation(key, what string, detail any) {
	if s.seenViol[key] {
		return
	}
	s.seenViol[key] = true
	if len(s.out.Viols) >= 200 {
		s.out.Extra["violations_dropped_over_200_per_child"]++
		return
	}
	b, _ := json.Marshal(detail)
	s.out.Viols = append(s.out.Viols, shardViol{key, what, b})
}

// RunSharded: see the file comment. In a child process it does not return.
func RunSharded(r *Run, testName string, body func(s *Shard)) {
	if spec := os.Getenv("VERIF_SHARD_SPEC"); spec != "" {
		s := &Shard{Tier: r.Tier, Seed: r.Seed, distinct: map[[16]byte]struct{}{}, seenViol: map[string]bool{}}
		var ms int64
		if _, err := fmt.Sscanf(spec, "%d/%d/%d", &s.K, &s.W, &ms); err != nil || s.W <= 0 {
			fmt.Fprintln(os.Stderr, "bad VERIF_SHARD_SPEC", spec)
			os.Exit(2)
		}
		s.deadline = time.UnixMilli(ms)
		s.out.Outcomes, s.out.Extra = map[string]int64{}, map[string]int64{}
		s.side = openSide(os.Getenv("VERIF_SHARD_OUT") + ".cur")
		debug.SetMaxStack(64 << 20) // runaway recursion in the code under test dies quickly
		body(s)
		for k := range s.distinct {
			s.out.Distinct = append(s.out.Distinct, base64.StdEncoding.EncodeToString(k[:]))
		}
		b, _ := json.Marshal(&s.out)
		if err := os.WriteFile(os.Getenv("VERIF_SHARD_OUT"), b, 0o644); err != nil {
			fmt.Fprintln(os.Stderr, "shard child: write:", err)
			os.Exit(2)
		}
		os.Exit(0)
	}
	W := Workers()
	scratch := os.Getenv("VERIF_SCRATCH")
	if scratch == "" {
		scratch = os.TempDir()
	}
	outs := make([]shardOut, W)
	errs := make([]error, W)
	died := make([]json.RawMessage, W)
	var wg sync.WaitGroup
	for k := 0; k < W; k++ {
		wg.Add(1)
		go func() {
			defer wg.Done()
			out := filepath.Join(scratch, fmt.Sprintf("shard-%s-%d.json", r.ID, k))
			cmd := exec.Command(os.Args[0], "-test.run", "^"+testName+"$", "-test.timeout", "0")
			cmd.Env = append(os.Environ(), fmt.Sprintf("VERIF_SHARD_SPEC=%d/%d/%d", k, W, r.deadline.UnixMilli()), "VERIF_SHARD_OUT="+out, "GOMAXPROCS=2")
			cmd.Stderr = os.Stderr
			cmd.Stdout = os.Stderr
			err := cmd.Run()
			b, rerr := os.ReadFile(out)
			if err == nil && rerr == nil {
				rerr = json.Unmarshal(b, &outs[k])
			}
			if err != nil || rerr != nil { // the child died: which case was it executing?
				outs[k] = shardOut{}
				if d := readSide(out + ".cur"); d != nil {
					died[k] = d
				} else {
					errs[k] = fmt.Errorf("shard child %d: %v %v (no current-case record)", k, err, rerr)
				}
			}
		}()
	}
	wg.Wait()
	for _, err := range errs {
		if err != nil {
			r.HarnessError("%v", err)
		}
	}
	var viols []shardViol
	nDied := 0
	for k, d := range died {
		if d == nil {
			continue
		}
		nDied++
		r.Capped(fmt.Sprintf("worker process %d died; its remaining work items were not explored", k))
		tmp := filepath.Join(scratch, fmt.Sprintf("shard-%s-crash-%d.json", r.ID, k))
		b, _ := json.Marshal(map[string]any{"case": d})
		_ = os.WriteFile(tmp, b, 0o644)
		r.Sample(map[string]any{"case": d, "outcome": "the worker process died while executing this case"})
		d1, head := runReplayChild(testName, tmp)
		d2, _ := runReplayChild(testName, tmp)
		if d1 && d2 {
			key := string(d)
			if len(key) > 600 {
				key = key[:600]
			}
			viols = append(viols, shardViol{"crash: process died, case=" + key,
				"executing this case kills the process in a way recover() cannot catch (reproduced twice in a fresh process): " + head, d})
		} else {
			fmt.Fprintf(os.Stderr, "NOTE: worker %d died but its last case %s does not kill a fresh process\n", k, string(d))
		}
	}
	if nDied > W/2 && len(viols) == 0 {
		r.HarnessError("%d of %d worker processes died without a reproducible cause", nDied, W)
	}
	for k := range outs {
		o := &outs[k]
		r.States.Add(o.States)
		r.Transitions.Add(o.Transitions)
		r.Traces.Add(o.Traces)
		r.Evaluations.Add(o.Evaluations)
		for c, n := range o.Outcomes {
			r.OutcomeN(c, n)
		}
		for _, c := range o.Caps {
			r.Capped(c)
		}
		r.mu.Lock()
		for _, d := range o.Distinct {
			if b, err := base64.StdEncoding.DecodeString(d); err == nil && len(b) == 16 {
				var key [16]byte
				copy(key[:], b)
				r.distinct[key] = struct{}{}
			}
		}
		for c, n := range o.Extra {
			if old, ok := r.Extra[c].(int64); ok {
				r.Extra[c] = old + n
			} else {
				r.Extra[c] = n
			}
		}
		r.mu.Unlock()
		for _, sm := range o.Samples {
			r.Sample(sm)
		}
		viols = append(viols, o.Viols...)
	}
	sort.Slice(viols, func(i, j int) bool { // same key from several children: the shortest description is reported
		if viols[i].Key != viols[j].Key {
			return viols[i].Key < viols[j].Key
		}
		if len(viols[i].What) != len(viols[j].What) {
			return len(viols[i].What) < len(viols[j].What)
		}
		return viols[i].What < viols[j].What
	})
	for _, v := range viols {
		r.Violation(v.Key, v.What, v.Detail)
	}
}
