package vlib

import "time"

// Deadline returns the internal deadline of the run (for harnesses that have to bound one long external step, e.g. a
// `go build` of generated code, with a context). It is never an oracle: hitting it only ends exploration early.
func (r *Run) Deadline() time.Time { return r.deadline }
