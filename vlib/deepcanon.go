package vlib

import (
	"bytes"
	"crypto/sha256"
	"encoding/binary"
	"encoding/hex"
	"fmt"
	"math"
	"reflect"
	"sort"
	"strings"
	"sync"
)

// DeepCanon renders the object graph reachable from a set of roots in a canonical, address-free form, for use as the
// state key of Engine S when the state is a web of live Go objects (UDP simulator, rpc connection objects).
//
// It walks everything reflect can see, including unexported fields (read-only reflect accessors suffice: Int, Uint,
// Len, Index, Field, Elem, MapRange, Pointer work on values obtained through unexported fields; no value is ever
// modified and no method of the walked objects is called).
//
// Correctness argument (the abstraction may be over-fine, it must never be coarse: two states with different futures
// must not get the same key):
//   - every scalar, string, array element, slice element below len, map entry and struct field is emitted with a
//     kind tag and length prefixes, so the byte stream parses uniquely back into the walked graph shape;
//   - pointers are replaced by their first-visit ordinal; the identity used is (address, pointee type), so aliasing
//     between any two pointers to the same object is preserved exactly (same ordinal <=> same object), while the
//     numeric addresses, which differ from run to run, never appear. The traversal order is fixed (roots in order,
//     struct fields in declaration order, slice elements by index, map entries sorted as below), so the ordinals are
//     a function of the graph alone;
//   - slices additionally emit len, cap and the first-visit ordinal of their data address: two slices that start at
//     the same address are recognised as aliases; cap is emitted because code may depend on it;
//   - map entries are sorted by the canonical form of the key computed in isolation (a fresh numbering), then walked
//     in that order with the shared numbering. Go's random map iteration order therefore never shows.
//     Keys without pointers (all maps met so far) make this order total; for pointer keys whose isolated forms tie
//     the order among the tied entries is unspecified, which can only make the key over-fine (split one state in two),
//     never merge two states;
//   - interface values emit their dynamic type name before the value.
//
// A DeepCanon value must be used through a pointer and its callbacks must not change after the first use.
//
// Deliberately NOT part of the key (documented blind spots, each harmless for the futures of the state):
//   - func and chan values and unsafe.Pointer: only nil/non-nil (closures cannot be inspected; no harness so far keeps
//     state in channels);
//   - everything whose type is declared in package sync or sync/atomic (mutexes, conds, wait groups, atomic counters:
//     lock words are always released between explored steps; the atomic fields met so far are statistics). Types for
//     which this is wrong must be handled by the caller through Skip=false overrides (see KeepType);
//   - slice elements between len and cap (reachable only by re-slicing, which the walked packages do not do on
//     state-carrying slices);
//   - overlap between slices that start at different addresses of one backing array (treated as independent: the
//     walked packages only ever write such chunks once, when the parent buffer is filled);
//   - uintptr fields are emitted as plain numbers (if one ever holds an address the key becomes non-deterministic,
//     which the determinism self-check of every harness reports).
//
// Over-fine on purpose: scratch buffers, free lists, queue positions and capacities are all included.
type DeepCanon struct {
	// SkipField, if set, is asked for every struct field; returning true leaves the field out of the key. Use it only
	// for fields that provably cannot influence the future (debug switches, metric callbacks).
	SkipField func(structType reflect.Type, f reflect.StructField) bool
	// KeepType, if set and returning true, forces a sync / sync/atomic type to be walked like any other struct.
	KeepType func(t reflect.Type) bool
	// TypeHook, if set, is asked once per type; a non-nil result renders values of that type instead of the generic
	// walk. A hook makes the key COARSER than the concrete structure, so it needs its own argument that the omitted
	// detail cannot influence any future (e.g. an encapsulated container whose behaviour depends on its logical
	// content only). The hook must emit through the DeepWalker it is given (Walk / Uint) and must be deterministic.
	TypeHook func(t reflect.Type) func(w *DeepWalker, v reflect.Value)

	plans sync.Map  // reflect.Type -> *dcPlan (the three callbacks above must not change after first use)
	pool  sync.Pool // *dcWalker with warm buffers
}

// DeepWalker is what a TypeHook emits through.
type DeepWalker = dcWalker

// Walk renders v generically (recursively applying hooks) at the current position.
func (w *dcWalker) Walk(v reflect.Value) { w.walk(v) }

// Uint emits a plain number (lengths, tags chosen by the hook).
func (w *dcWalker) Uint(x uint64) {
	w.tag(dcUint)
	w.u64(x)
	if w.trace != nil {
		w.leaf("hook:%d", x)
	}
}

// dcPlan caches, per type, what the walk needs (reflect.Type.Field allocates; the skip decision needs PkgPath).
type dcPlan struct {
	skip   bool
	hook   func(w *DeepWalker, v reflect.Value)
	fields []dcField // struct types only: the fields that are walked
	nfield int
}

type dcField struct {
	index int
	name  string
}

type dcPtrKey struct {
	addr uintptr
	typ  reflect.Type
}

type dcWalker struct {
	cfg   *DeepCanon
	buf   []byte
	ptrs  map[dcPtrKey]uint32
	trace *strings.Builder // non-nil: also produce a readable dump (debugging aid)
	path  []string
	plans map[reflect.Type]*dcPlan // walker-local view (no locking on the hot path)
}

const (
	dcNil byte = iota + 1
	dcBool
	dcInt
	dcUint
	dcFloat
	dcComplex
	dcString
	dcArray
	dcSlice
	dcPtrNew
	dcPtrRef
	dcIface
	dcMap
	dcStruct
	dcOpaque // func / chan / unsafe.Pointer: nil-ness only
	dcRoot
)

// Hash returns the hex SHA-256 of the canonical form of the graph reachable from roots (pass pointers).
func (c *DeepCanon) Hash(roots ...any) string {
	w := c.walker(false)
	w.roots(roots)
	h := sha256.Sum256(w.buf)
	w.release()
	return hex.EncodeToString(h[:])
}

// Bytes returns the canonical byte stream itself (tests, debugging).
func (c *DeepCanon) Bytes(roots ...any) []byte {
	w := c.walker(false)
	w.roots(roots)
	out := append([]byte(nil), w.buf...)
	w.release()
	return out
}

// Dump returns a readable rendering (one line per leaf, with its access path) of exactly what Hash hashes; diffing the
// dumps of two runs shows what made two keys differ.
func (c *DeepCanon) Dump(roots ...any) string {
	w := c.walker(true)
	w.roots(roots)
	return w.trace.String()
}

// DeepHash is Hash with the default configuration.
func DeepHash(roots ...any) string { return (&DeepCanon{}).Hash(roots...) }

func (c *DeepCanon) walker(trace bool) *dcWalker {
	if !trace {
		if x := c.pool.Get(); x != nil {
			return x.(*dcWalker)
		}
	}
	w := &dcWalker{cfg: c, ptrs: make(map[dcPtrKey]uint32, 256), plans: make(map[reflect.Type]*dcPlan, 64), buf: make([]byte, 0, 1<<15)}
	if trace {
		w.trace = &strings.Builder{}
	}
	return w
}

// release returns a non-tracing walker to its DeepCanon's pool (its type plans stay valid: they depend on types only).
func (w *dcWalker) release() {
	if w.trace != nil {
		return
	}
	w.buf = w.buf[:0]
	clear(w.ptrs)
	w.cfg.pool.Put(w)
}

func (w *dcWalker) roots(roots []any) {
	for i, r := range roots {
		w.tag(dcRoot)
		w.u64(uint64(i))
		if w.trace != nil {
			w.path = append(w.path[:0], fmt.Sprintf("root%d", i))
		}
		if r == nil {
			w.tag(dcNil)
			continue
		}
		w.walk(reflect.ValueOf(r))
	}
}

func (w *dcWalker) tag(b byte) { w.buf = append(w.buf, b) }
func (w *dcWalker) u64(x uint64) {
	w.buf = binary.AppendUvarint(w.buf, x)
}

func (w *dcWalker) leaf(format string, a ...any) {
	if w.trace != nil { // callers on hot paths guard with w.trace != nil themselves to avoid boxing the arguments
		w.trace.WriteString(strings.Join(w.path, ""))
		w.trace.WriteString(" = ")
		fmt.Fprintf(w.trace, format, a...)
		w.trace.WriteByte('\n')
	}
}

func (w *dcWalker) push(s string) {
	if w.trace != nil {
		w.path = append(w.path, s)
	}
}

func (w *dcWalker) pop() {
	if w.trace != nil {
		w.path = w.path[:len(w.path)-1]
	}
}

func (w *dcWalker) plan(t reflect.Type) *dcPlan {
	if p, ok := w.plans[t]; ok {
		return p
	}
	if p, ok := w.cfg.plans.Load(t); ok {
		w.plans[t] = p.(*dcPlan)
		return p.(*dcPlan)
	}
	pk := t.PkgPath()
	p := &dcPlan{skip: pk == "sync" || pk == "sync/atomic" || pk == "internal/sync"}
	if p.skip && w.cfg.KeepType != nil && w.cfg.KeepType(t) {
		p.skip = false
	}
	if !p.skip && w.cfg.TypeHook != nil {
		p.hook = w.cfg.TypeHook(t)
	}
	if t.Kind() == reflect.Struct && !p.skip {
		p.nfield = t.NumField()
		for i := 0; i < p.nfield; i++ {
			f := t.Field(i)
			if w.cfg.SkipField != nil && w.cfg.SkipField(t, f) {
				continue
			}
			p.fields = append(p.fields, dcField{i, f.Name})
		}
	}
	w.cfg.plans.Store(t, p)
	w.plans[t] = p
	return p
}

func (w *dcWalker) skipType(t reflect.Type) bool { return w.plan(t).skip }

func (w *dcWalker) walk(v reflect.Value) {
	t := v.Type()
	pl := w.plan(t)
	if pl.skip {
		return
	}
	if pl.hook != nil {
		pl.hook(w, v)
		return
	}
	switch v.Kind() {
	case reflect.Bool:
		w.tag(dcBool)
		if v.Bool() {
			w.tag(1)
		} else {
			w.tag(0)
		}
		if w.trace != nil {
			w.leaf("%v", v.Bool())
		}
	case reflect.Int, reflect.Int8, reflect.Int16, reflect.Int32, reflect.Int64:
		w.tag(dcInt)
		w.buf = binary.AppendVarint(w.buf, v.Int())
		if w.trace != nil {
			w.leaf("%d", v.Int())
		}
	case reflect.Uint, reflect.Uint8, reflect.Uint16, reflect.Uint32, reflect.Uint64, reflect.Uintptr:
		w.tag(dcUint)
		w.u64(v.Uint())
		if w.trace != nil {
			w.leaf("%d", v.Uint())
		}
	case reflect.Float32, reflect.Float64:
		w.tag(dcFloat)
		w.u64(math.Float64bits(v.Float()))
		if w.trace != nil {
			w.leaf("%v", v.Float())
		}
	case reflect.Complex64, reflect.Complex128:
		w.tag(dcComplex)
		w.u64(math.Float64bits(real(v.Complex())))
		w.u64(math.Float64bits(imag(v.Complex())))
		if w.trace != nil {
			w.leaf("%v", v.Complex())
		}
	case reflect.String:
		s := v.String()
		w.tag(dcString)
		w.u64(uint64(len(s)))
		w.buf = append(w.buf, s...)
		if w.trace != nil {
			w.leaf("%q", s)
		}
	case reflect.Array:
		n := v.Len()
		w.tag(dcArray)
		w.u64(uint64(n))
		if w.scalarRun(v, n) {
			return
		}
		for i := 0; i < n; i++ {
			if w.trace != nil {
				w.push(fmt.Sprintf("[%d]", i))
			}
			w.walk(v.Index(i))
			w.pop()
		}
	case reflect.Slice:
		if v.IsNil() {
			w.tag(dcNil)
			if w.trace != nil {
				w.leaf("nil slice")
			}
			return
		}
		n := v.Len()
		w.tag(dcSlice)
		w.u64(uint64(n))
		w.u64(uint64(v.Cap()))
		if v.Cap() > 0 {
			w.u64(uint64(w.ptrID(dcPtrKey{v.Pointer(), t})) + 1)
		} else {
			w.u64(0)
		}
		if w.trace != nil {
			if w.trace != nil {
				w.leaf("slice len=%d cap=%d data#%d", n, v.Cap(), w.ptrs[dcPtrKey{v.Pointer(), t}])
			}
		}
		if w.scalarRun(v, n) {
			return
		}
		for i := 0; i < n; i++ {
			if w.trace != nil {
				w.push(fmt.Sprintf("[%d]", i))
			}
			w.walk(v.Index(i))
			w.pop()
		}
	case reflect.Pointer:
		if v.IsNil() {
			w.tag(dcNil)
			if w.trace != nil {
				w.leaf("nil")
			}
			return
		}
		k := dcPtrKey{v.Pointer(), t}
		if id, ok := w.ptrs[k]; ok {
			w.tag(dcPtrRef)
			w.u64(uint64(id))
			if w.trace != nil {
				w.leaf("-> #%d", id)
			}
			return
		}
		id := w.ptrID(k)
		w.tag(dcPtrNew)
		w.u64(uint64(id))
		if w.trace != nil {
			w.push(fmt.Sprintf("(#%d)", id))
		}
		w.walk(v.Elem())
		w.pop()
	case reflect.Interface:
		if v.IsNil() {
			w.tag(dcNil)
			if w.trace != nil {
				w.leaf("nil interface")
			}
			return
		}
		e := v.Elem()
		name := e.Type().String()
		w.tag(dcIface)
		w.u64(uint64(len(name)))
		w.buf = append(w.buf, name...)
		if w.trace != nil {
			w.push("{" + name + "}")
		}
		w.walk(e)
		w.pop()
	case reflect.Map:
		if v.IsNil() {
			w.tag(dcNil)
			if w.trace != nil {
				w.leaf("nil map")
			}
			return
		}
		w.tag(dcMap)
		w.u64(uint64(v.Len()))
		type ent struct {
			iso  []byte
			k, v reflect.Value
		}
		ents := make([]ent, 0, v.Len())
		it := v.MapRange()
		for it.Next() {
			iso := &dcWalker{cfg: w.cfg, ptrs: map[dcPtrKey]uint32{}, plans: w.plans}
			iso.walk(it.Key())
			ents = append(ents, ent{iso.buf, it.Key(), it.Value()})
		}
		sort.SliceStable(ents, func(i, j int) bool { return bytes.Compare(ents[i].iso, ents[j].iso) < 0 })
		for i, e := range ents {
			if w.trace != nil {
				w.push(fmt.Sprintf("<key%d>", i))
			}
			w.walk(e.k)
			w.pop()
			if w.trace != nil {
				w.push(fmt.Sprintf("<val%d>", i))
			}
			w.walk(e.v)
			w.pop()
		}
	case reflect.Struct:
		w.tag(dcStruct)
		w.u64(uint64(pl.nfield))
		for _, f := range pl.fields {
			if w.trace != nil {
				w.push("." + f.name)
			}
			w.walk(v.Field(f.index))
			w.pop()
		}
	case reflect.Func, reflect.Chan, reflect.UnsafePointer:
		w.tag(dcOpaque)
		if v.IsNil() {
			w.tag(0)
		} else {
			w.tag(1)
		}
		if w.trace != nil {
			w.leaf("%s nil=%v", v.Kind(), v.IsNil())
		}
	default:
		panic("vlib.DeepCanon: unsupported kind " + v.Kind().String())
	}
}

// scalarRun emits all elements of an array/slice of plain numbers in one go (fast path; same information).
func (w *dcWalker) scalarRun(v reflect.Value, n int) bool {
	et := v.Type().Elem()
	if w.skipType(et) {
		return true
	}
	switch et.Kind() {
	case reflect.Uint8:
		if v.Kind() == reflect.Slice {
			w.tag(dcUint)
			w.buf = append(w.buf, v.Bytes()...)
		} else {
			w.tag(dcUint)
			for i := 0; i < n; i++ {
				w.buf = append(w.buf, byte(v.Index(i).Uint()))
			}
		}
	case reflect.Uint16, reflect.Uint32, reflect.Uint64, reflect.Uint, reflect.Uintptr:
		w.tag(dcUint)
		for i := 0; i < n; i++ {
			w.u64(v.Index(i).Uint())
		}
	case reflect.Int8, reflect.Int16, reflect.Int32, reflect.Int64, reflect.Int:
		w.tag(dcInt)
		for i := 0; i < n; i++ {
			w.buf = binary.AppendVarint(w.buf, v.Index(i).Int())
		}
	default:
		return false
	}
	if w.trace != nil {
		var sb strings.Builder
		for i := 0; i < n && i < 64; i++ {
			if et.Kind() >= reflect.Int && et.Kind() <= reflect.Int64 {
				fmt.Fprintf(&sb, "%d ", v.Index(i).Int())
			} else {
				fmt.Fprintf(&sb, "%d ", v.Index(i).Uint())
			}
		}
		if w.trace != nil {
			w.leaf("[%d]%s{%s}", n, et.Kind(), strings.TrimSpace(sb.String()))
		}
	}
	return true
}

func (w *dcWalker) ptrID(k dcPtrKey) uint32 {
	if id, ok := w.ptrs[k]; ok {
		return id
	}
	id := uint32(len(w.ptrs))
	w.ptrs[k] = id
	return id
}
