// Package vlib is the shared runtime of the /verif model-checking harnesses. It is plain stdlib Go; it is mapped into
// the /repo module by `go build -overlay` as internal/zzverif/vlib (or copied into a scratch module), never committed
// to /repo.
package vlib

import (
	"crypto/sha256"
	"encoding/hex"
	"encoding/json"
	"fmt"
	"os"
	"path/filepath"
	"runtime"
	"runtime/debug"
	"sort"
	"strconv"
	"strings"
	"sync"
	"sync/atomic"
	"time"
)

// Run collects what one check run covered and what it found; Finish writes the evidence file and exits.
type Run struct {
	ID    string
	Tier  string
	Seed  int64
	Level string

	Rule        string
	Assumptions []string
	Extra       map[string]any // additional coverage keys (bounds completed, histograms, ...)

	States      atomic.Int64
	Transitions atomic.Int64
	Traces      atomic.Int64 // executions on the real implementation
	Evaluations atomic.Int64

	mu         sync.Mutex
	distinct   map[[16]byte]struct{}
	outcomes   map[string]int64
	samples    []any
	maxSamples int
	exhaustive bool
	caps       []string

	violations   int
	knownHits    map[string]bool
	seenViolKeys map[string]bool
	known        knownFile
	replayN      int

	start    time.Time
	deadline time.Time
	Replay   string // non-empty: re-execute the recorded case in this file only
}

type knownFinding struct {
	Property string `json:"property"`
	Key      string `json:"key"`
	What     string `json:"what"`
}

type knownFile struct {
	Findings []knownFinding `json:"findings"`
}

// Quick reports whether this is the quick tier.
func (r *Run) Quick() bool { return r.Tier != "thorough" }

// Workers is the degree of parallelism checks may use.
func Workers() int {
	if s := os.Getenv("VERIF_WORKERS"); s != "" {
		if n, err := strconv.Atoi(s); err == nil && n > 0 {
			return n
		}
	}
	return runtime.NumCPU()
}

// NewRun reads the environment prepared by /verif/vcheck.
func NewRun(id, level string) *Run {
	r := &Run{ID: id, Level: level, Tier: os.Getenv("VERIF_TIER"), Extra: map[string]any{}, maxSamples: 6,
		distinct: map[[16]byte]struct{}{}, outcomes: map[string]int64{}, knownHits: map[string]bool{},
		seenViolKeys: map[string]bool{}, start: time.Now(), exhaustive: true, Replay: os.Getenv("VERIF_REPLAY")}
	if r.Tier != "thorough" {
		r.Tier = "quick"
	}
	r.Seed, _ = strconv.ParseInt(os.Getenv("VERIF_SEED"), 10, 64)
	budget := 240 * time.Second
	if r.Tier == "thorough" {
		budget = 25 * time.Minute
	}
	if s := os.Getenv("VERIF_DEADLINE_S"); s != "" {
		if n, err := strconv.Atoi(s); err == nil {
			budget = time.Duration(n) * time.Second
		}
	}
	r.deadline = r.start.Add(budget)
	for _, env := range []string{"VERIF_KNOWN", "VERIF_KNOWN_LOCAL"} {
		if p := os.Getenv(env); p != "" {
			if b, err := os.ReadFile(p); err == nil {
				var kf knownFile
				if err := json.Unmarshal(b, &kf); err != nil {
					fmt.Fprintf(os.Stderr, "HARNESS-ERROR: cannot parse %s: %v\n", p, err)
					os.Exit(2)
				}
				r.known.Findings = append(r.known.Findings, kf.Findings...)
			}
		}
	}
	return r
}

// SetBudget overrides the internal deadline (a deadline only ever ends exploration early with exhaustive:false;
// it is never an oracle).
func (r *Run) SetBudget(quick, thorough time.Duration) {
	if os.Getenv("VERIF_DEADLINE_S") != "" {
		return
	}
	if r.Quick() {
		r.deadline = r.start.Add(quick)
	} else {
		r.deadline = r.start.Add(thorough)
	}
}

// Expired reports that the internal time budget is used up; callers stop cleanly and call Capped.
func (r *Run) Expired() bool { return time.Now().After(r.deadline) }

// Capped records that a bound was not completed; the run is then reported exhaustive:false.
func (r *Run) Capped(what string) {
	r.mu.Lock()
	defer r.mu.Unlock()
	r.exhaustive = false
	for _, c := range r.caps {
		if c == what {
			return
		}
	}
	r.caps = append(r.caps, what)
}

// Nontrivial counts a distinct non-trivial case under the check's stated Rule.
func (r *Run) Nontrivial(key string) {
	h := sha256.Sum256([]byte(key))
	var k [16]byte
	copy(k[:], h[:16])
	r.mu.Lock()
	r.distinct[k] = struct{}{}
	r.mu.Unlock()
}

// Outcome adds to the histogram of observed outcome classes (vacuity guard: read it).
func (r *Run) Outcome(class string) {
	r.mu.Lock()
	r.outcomes[class]++
	r.mu.Unlock()
}

// OutcomeN adds n to an outcome class.
func (r *Run) OutcomeN(class string, n int64) {
	r.mu.Lock()
	r.outcomes[class] += n
	r.mu.Unlock()
}

// Sample stores an actual explored case (only the first few are kept).
func (r *Run) Sample(x any) {
	r.mu.Lock()
	if len(r.samples) < r.maxSamples {
		r.samples = append(r.samples, x)
	}
	r.mu.Unlock()
}

// WantSample reports whether more samples are still wanted (to avoid building them needlessly).
func (r *Run) WantSample() bool {
	r.mu.Lock()
	defer r.mu.Unlock()
	return len(r.samples) < r.maxSamples
}

// Set stores an extra coverage key.
func (r *Run) Set(key string, v any) {
	r.mu.Lock()
	r.Extra[key] = v
	r.mu.Unlock()
}

// Violation reports a property violation identified by key (the specific input / call site / history, stable across
// runs). If known_findings.json lists (property,key) it is printed as KNOWN-FINDING and does not fail the run;
// otherwise the case is written to replays/<ID>/ and a VIOLATION line is printed. Returns true if it was new.
func (r *Run) Violation(key string, what string, detail any) bool {
	r.mu.Lock()
	defer r.mu.Unlock()
	if r.seenViolKeys[key] {
		return false
	}
	r.seenViolKeys[key] = true
	for _, k := range r.known.Findings {
		if k.Property == r.ID && k.Key == key {
			if !r.knownHits[key] {
				r.knownHits[key] = true
				fmt.Printf("KNOWN-FINDING: property=%s %s\n", r.ID, k.What)
			}
			return false
		}
	}
	r.violations++
	if r.violations > 20 { // keep output and replay directory small; count still recorded
		return true
	}
	dir := os.Getenv("VERIF_REPLAYS")
	if dir == "" {
		dir = filepath.Join(os.TempDir(), "verif-replays", r.ID)
	}
	_ = os.MkdirAll(dir, 0o755)
	r.replayN++
	h := sha256.Sum256([]byte(key))
	path := filepath.Join(dir, fmt.Sprintf("%s-%s.json", r.ID, hex.EncodeToString(h[:6])))
	b, _ := json.MarshalIndent(map[string]any{"property": r.ID, "key": key, "what": what, "case": detail,
		"replay_cmd": fmt.Sprintf("./vcheck %s --replay %s", r.ID, path)}, "", " ")
	_ = os.WriteFile(path, b, 0o644)
	fmt.Printf("VIOLATION property=%s replay=%s\n", r.ID, path)
	fmt.Printf("  what: %s\n  key: %s\n", what, key)
	return true
}

// Violations returns the number of unlisted violations so far.
func (r *Run) Violations() int {
	r.mu.Lock()
	defer r.mu.Unlock()
	return r.violations
}

// LoadReplay reads the "case" member of a replay artefact into v.
func (r *Run) LoadReplay(v any) error {
	b, err := os.ReadFile(r.Replay)
	if err != nil {
		return err
	}
	var f struct {
		Case json.RawMessage `json:"case"`
	}
	if err := json.Unmarshal(b, &f); err != nil {
		return err
	}
	return json.Unmarshal(f.Case, v)
}

// HarnessError aborts: the check could not do its job (exit 2) — never used to hide a violation.
func (r *Run) HarnessError(format string, a ...any) {
	fmt.Fprintf(os.Stderr, "HARNESS-ERROR: %s: %s\n", r.ID, fmt.Sprintf(format, a...))
	os.Exit(2)
}

// Finish writes the evidence file and exits with 0 (held) or 1 (violations).
func (r *Run) Finish() {
	r.mu.Lock()
	cov := map[string]any{}
	for k, v := range r.Extra {
		cov[k] = v
	}
	ev := r.Evaluations.Load()
	tr := r.Traces.Load()
	if ev == 0 {
		ev = tr
	}
	if tr == 0 {
		tr = ev
	}
	cov["evaluations"] = ev
	cov["distinct_nontrivial"] = len(r.distinct)
	cov["rule"] = r.Rule
	if len(r.samples) == 0 && r.Replay == "" {
		// the evidence schema requires at least one actual explored case, written out
		fmt.Fprintf(os.Stderr, "HARNESS-ERROR: %s: no r.Sample(...) recorded; every check must store a few real explored cases\n", r.ID)
		os.Exit(2)
	}
	cov["samples"] = r.samples
	if s := r.States.Load(); s > 0 {
		cov["states"] = s
	}
	if s := r.Transitions.Load(); s > 0 {
		cov["transitions"] = s
	}
	cov["traces_validated_against_impl"] = tr
	cov["exhaustive"] = r.exhaustive
	if len(r.caps) > 0 {
		cov["caps_hit"] = r.caps
	}
	keys := make([]string, 0, len(r.outcomes))
	for k := range r.outcomes {
		keys = append(keys, k)
	}
	sort.Strings(keys)
	oc := map[string]int64{}
	for _, k := range keys {
		oc[k] = r.outcomes[k]
	}
	cov["outcomes"] = oc
	known := make([]string, 0, len(r.knownHits))
	for k := range r.knownHits {
		known = append(known, k)
	}
	sort.Strings(known)
	cov["known_findings_hit"] = known
	out := map[string]any{
		"property_id": r.ID, "tier": r.Tier, "seed": r.Seed, "level": r.Level, "coverage": cov,
		"assumptions": r.Assumptions, "wall_s": time.Since(r.start).Seconds(), "violations": r.violations,
	}
	if out["assumptions"] == nil || len(r.Assumptions) == 0 {
		out["assumptions"] = []string{}
	}
	viol := r.violations
	r.mu.Unlock()
	if r.Replay == "" {
		b, err := json.MarshalIndent(out, "", " ")
		if err != nil {
			fmt.Fprintf(os.Stderr, "HARNESS-ERROR: evidence marshal: %v\n", err)
			os.Exit(2)
		}
		if p := os.Getenv("VERIF_EVIDENCE"); p != "" {
			_ = os.MkdirAll(filepath.Dir(p), 0o755)
			if err := os.WriteFile(p, append(b, '\n'), 0o644); err != nil {
				fmt.Fprintf(os.Stderr, "HARNESS-ERROR: evidence write: %v\n", err)
				os.Exit(2)
			}
		}
	}
	fmt.Printf("%s %s: evaluations=%d states=%d transitions=%d distinct_nontrivial=%d exhaustive=%v violations=%d known=%d wall=%.1fs outcomes=%v\n",
		r.ID, r.Tier, ev, r.States.Load(), r.Transitions.Load(), len(r.distinct), r.exhaustive, viol, len(known),
		time.Since(r.start).Seconds(), oc)
	if viol > 0 {
		os.Exit(1)
	}
	os.Exit(0)
}

// Main runs body with a fresh Run, turning an escaped panic into a harness error (exit 2), then finishes.
func Main(id, level string, body func(r *Run)) {
	r := NewRun(id, level)
	func() {
		defer func() {
			if p := recover(); p != nil {
				fmt.Fprintf(os.Stderr, "HARNESS-ERROR: %s: panic in harness: %v\n%s\n", id, p, debug.Stack())
				os.Exit(2)
			}
		}()
		body(r)
	}()
	r.Finish()
}

// Catch runs f and returns the recovered panic value rendered as text ("" if none).
func Catch(f func()) (p string) {
	defer func() {
		if x := recover(); x != nil {
			p = strings.TrimSpace(fmt.Sprint(x))
			if p == "" {
				p = "panic"
			}
		}
	}()
	f()
	return ""
}

// ParallelFor runs f(i) for i in [0,n) on Workers() goroutines; stops handing out work once the budget expired
// (recording the cap) and returns how many indices were processed.
func (r *Run) ParallelFor(n int, what string, f func(i int)) int {
	var next atomic.Int64
	var done atomic.Int64
	var wg sync.WaitGroup
	w := Workers()
	if w > n {
		w = n
	}
	for k := 0; k < w; k++ {
		wg.Add(1)
		go func() {
			defer wg.Done()
			for {
				if r.Expired() {
					return
				}
				i := int(next.Add(1) - 1)
				if i >= n {
					return
				}
				f(i)
				done.Add(1)
			}
		}()
	}
	wg.Wait()
	if int(done.Load()) < n {
		r.Capped(fmt.Sprintf("%s: time budget reached after %d of %d", what, done.Load(), n))
	}
	return int(done.Load())
}
