package vlib

// Shim channels and select for Engine C. A blocking channel operation has two phases, as in the Go runtime: at its
// scheduling point it completes immediately if it can (buffer, closed channel, or a peer that is already PARKED);
// otherwise it parks, visible to later peers, and is completed by the peer (or by close).

import (
	"fmt"
	"strings"
)

type chanCore struct {
	reg    schedReg
	cap    int
	buf    []any
	closed bool
	name   string
}

func (c *chanCore) schedState(b *strings.Builder) {
	fmt.Fprintf(b, "ch%d/%d", len(c.buf), c.cap)
	if c.closed {
		b.WriteByte('x')
	}
	for _, v := range c.buf {
		switch v.(type) {
		case int, int32, int64, uint32, uint64, string, bool, struct{}:
			fmt.Fprintf(b, ",%v", v)
		default: // contents with pointers: the harness' ExtraKey must cover what matters of them
			fmt.Fprintf(b, ",%T", v)
		}
	}
}

func (c *chanCore) sync(x *Exec) {
	if c != nil {
		// a channel belongs to the execution that made it; re-registration only numbers it for state keys
		c.reg.register(x, c)
	}
}

// Chan replaces `chan T` (all directions). A nil *Chan behaves like a nil channel.
type Chan[T any] struct{ c chanCore }

// MakeChan replaces make(chan T, n).
func MakeChan[T any](n int) *Chan[T] {
	if n < 0 {
		panic("makechan: size out of range")
	}
	return &Chan[T]{c: chanCore{cap: n}}
}

func (c *Chan[T]) core() *chanCore {
	if c == nil {
		return nil
	}
	return &c.c
}

type selCase struct {
	ch   *chanCore
	send bool
	val  any
}

// Select is the rewritten form of a select statement.
type Select struct {
	cases      []selCase
	hasDefault bool
	// result of Wait
	idx int
	val any
	ok  bool
}

// RecvCase / SendCase give typed access to the outcome of one select case.
type RecvCase[T any] struct {
	s *Select
	i int
}

// NewSelect starts a select; hasDefault tells whether it has a default clause.
func NewSelect(hasDefault bool) *Select { return &Select{hasDefault: hasDefault, idx: -1} }

// AddRecv adds `case ... <-c`.
func AddRecv[T any](s *Select, c *Chan[T]) RecvCase[T] {
	s.cases = append(s.cases, selCase{ch: c.core()})
	return RecvCase[T]{s, len(s.cases) - 1}
}

// AddSend adds `case c <- v`.
func AddSend[T any](s *Select, c *Chan[T], v T) int {
	s.cases = append(s.cases, selCase{ch: c.core(), send: true, val: v})
	return len(s.cases) - 1
}

// V is the received value of this case (valid when Wait returned its index).
func (r RecvCase[T]) V() T {
	v, _ := r.s.val.(T)
	return v
}

// Ok is the second result of the receive.
func (r RecvCase[T]) Ok() bool { return r.s.ok }

// Wait performs the select and returns the index of the chosen case, or -1 for default.
func (s *Select) Wait() int {
	s.idx, s.val, s.ok = selectOp(s.cases, s.hasDefault)
	return s.idx
}

// BlockForever replaces `select {}`.
func BlockForever() {
	x := inThread()
	if x == nil {
		shimBlockPanic("select {}")
	}
	x.point(func() bool { return false }, "select{}", opChanPark)
}

func (c *Chan[T]) Send(v T) {
	selectOp([]selCase{{ch: c.core(), send: true, val: v}}, false)
}

func (c *Chan[T]) Recv() T {
	_, v, _ := selectOp([]selCase{{ch: c.core()}}, false)
	r, _ := v.(T)
	return r
}

func (c *Chan[T]) Recv2() (T, bool) {
	_, v, ok := selectOp([]selCase{{ch: c.core()}}, false)
	r, _ := v.(T)
	return r, ok
}

func (c *Chan[T]) Len() int {
	if c == nil {
		return 0
	}
	if x := inThread(); x != nil {
		c.c.sync(x)
		x.point(nil, "len(chan)", opChan+uint64(c.c.reg.id)<<8)
		x.noteResult(uint64(len(c.c.buf)))
	}
	return len(c.c.buf)
}

func (c *Chan[T]) Cap() int {
	if c == nil {
		return 0
	}
	return c.c.cap
}

func (c *Chan[T]) Close() {
	if c == nil {
		panic("close of nil channel")
	}
	x := inThread()
	cc := &c.c
	if x != nil {
		cc.sync(x)
		x.point(nil, "close(chan)", opClose+uint64(cc.reg.id)<<8)
	}
	if cc.closed {
		panic("close of closed channel")
	}
	cc.closed = true
	if xc := schedCur; xc != nil {
		for _, t := range xc.threads {
			if t.done || t.selDone || t.selCases == nil {
				continue
			}
			for i, sc := range t.selCases {
				if sc.ch == cc {
					t.selDone, t.selIdx, t.selVal, t.selOk, t.selPanic = true, i, nil, false, sc.send
					t.selCases = nil
					break
				}
			}
		}
	}
}

// parkedPeers lists threads parked on ch in the opposite direction, in parking order.
func (x *Exec) parkedPeers(self *Thread, ch *chanCore, wantSend bool) (ts []*Thread, idx []int) {
	for _, t := range x.threads {
		if t == self || t.done || t.selDone || t.selCases == nil {
			continue
		}
		for i, sc := range t.selCases {
			if sc.ch == ch && sc.send == wantSend {
				// keep parking order
				pos := len(ts)
				for pos > 0 && ts[pos-1].selSeq > t.selSeq {
					pos--
				}
				ts = append(ts, nil)
				idx = append(idx, 0)
				copy(ts[pos+1:], ts[pos:])
				copy(idx[pos+1:], idx[pos:])
				ts[pos], idx[pos] = t, i
				break
			}
		}
	}
	return
}

func (x *Exec) caseReady(self *Thread, sc selCase) bool {
	ch := sc.ch
	if ch == nil {
		return false
	}
	if sc.send {
		if ch.closed || len(ch.buf) < ch.cap {
			return true
		}
		ts, _ := x.parkedPeers(self, ch, false)
		return len(ts) > 0
	}
	if len(ch.buf) > 0 || ch.closed {
		return true
	}
	ts, _ := x.parkedPeers(self, ch, true)
	return len(ts) > 0
}

func completePeer(t *Thread, i int, v any, ok bool) {
	t.selDone, t.selIdx, t.selVal, t.selOk, t.selPanic = true, i, v, ok, false
	t.selCases = nil
}

// perform executes one ready case for the running thread (or for setup code when self == nil).
func (x *Exec) perform(self *Thread, sc selCase) (any, bool) {
	ch := sc.ch
	pick := func(n int) int {
		if self != nil {
			return x.choose(n)
		}
		return 0
	}
	if sc.send {
		if ch.closed {
			panic("send on closed channel")
		}
		if ts, idx := x.parkedPeers(self, ch, false); len(ts) > 0 {
			k := pick(len(ts))
			completePeer(ts[k], idx[k], sc.val, true)
			return nil, false
		}
		ch.buf = append(ch.buf, sc.val)
		return nil, false
	}
	if len(ch.buf) > 0 {
		v := ch.buf[0]
		ch.buf = append(ch.buf[:0:0], ch.buf[1:]...)
		if ts, idx := x.parkedPeers(self, ch, true); len(ts) > 0 {
			k := pick(len(ts))
			ch.buf = append(ch.buf, ts[k].selCases[idx[k]].val)
			completePeer(ts[k], idx[k], nil, false)
		}
		return v, true
	}
	if ts, idx := x.parkedPeers(self, ch, true); len(ts) > 0 {
		k := pick(len(ts))
		v := ts[k].selCases[idx[k]].val
		completePeer(ts[k], idx[k], nil, false)
		return v, true
	}
	if ch.closed {
		return nil, false
	}
	panic("vlib: perform on a case that is not ready")
}

func selectOp(cases []selCase, hasDefault bool) (int, any, bool) {
	x := inThread()
	if x == nil {
		// setup / hook code: only non-blocking outcomes are possible
		xc := schedCur
		if xc == nil {
			xc = &Exec{}
		}
		for i, sc := range cases {
			if xc.caseReady(nil, sc) {
				v, ok := xc.perform(nil, sc)
				return i, v, ok
			}
		}
		if hasDefault {
			return -1, nil, false
		}
		shimBlockPanic("channel operation")
	}
	var oc uint64 = opChan
	for _, sc := range cases {
		if sc.ch != nil {
			sc.ch.sync(x)
			oc = oc*31 + uint64(sc.ch.reg.id)<<8 + b2u(sc.send)
		}
	}
	desc := "chan op"
	if len(cases) > 1 || hasDefault {
		desc = "select"
	} else if len(cases) == 1 && cases[0].send {
		desc = "chan send"
	} else if len(cases) == 1 {
		desc = "chan recv"
	}
	x.point(nil, desc, oc)
	t := x.cur
	var ready []int
	for i, sc := range cases {
		if x.caseReady(t, sc) {
			ready = append(ready, i)
		}
	}
	if len(ready) > 0 {
		i := ready[x.choose(len(ready))]
		v, ok := x.perform(t, cases[i])
		x.noteResult(uint64(i) + 1)
		return i, v, ok
	}
	if hasDefault {
		x.noteResult(0)
		return -1, nil, false
	}
	// park
	x.parkSeq++
	t.selCases, t.selDone, t.selSeq = cases, false, x.parkSeq
	x.point(func() bool { return t.selDone }, desc+"(parked)", opChanPark)
	t.selDone = false
	t.selCases = nil
	if t.selPanic {
		t.selPanic = false
		panic("send on closed channel")
	}
	x.noteResult(uint64(t.selIdx) + 1)
	return t.selIdx, t.selVal, t.selOk
}

// ChanPeek lets an oracle look at a shim channel without a scheduling point.
func ChanPeek[T any](c *Chan[T]) (n int, closed bool) {
	if c == nil {
		return 0, false
	}
	return len(c.c.buf), c.c.closed
}
