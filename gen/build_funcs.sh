# Sourced after gen/build.sh by the checks that need the FUNCTION universe (C07, C18, C43):
#   vg_prepare_funcs <universe-level> <cfg>...   like vg_prepare, but the schema is uni.FuncUniverse(level) =
#                                                Universe(level) + the functions of gen/uni/universe_funcs.go
# It is derived from the body of vg_prepare (so it stays in step with it) with gen/cmd/unigen replaced by
# gen/cmd/unigenf, which has the same command line.
eval "$(declare -f vg_prepare | sed -e '1s/^vg_prepare /vg_prepare_funcs /' -e 's#\./cmd/unigen\b#./cmd/unigenf#g')"
if ! declare -f vg_prepare_funcs | grep -q 'cmd/unigenf'; then
  echo "HARNESS-ERROR: gen/build_funcs.sh could not derive vg_prepare_funcs from vg_prepare" >&2
  vg_prepare_funcs() { return 2; }
fi
