module verifgen

go 1.24.0
