// unigenf writes the function universe (uni.FuncUniverse: the type universe plus functions) as TL1 text.
// Same command line as unigen, so that gen/build_funcs.sh can substitute it.
package main

import (
	"flag"
	"fmt"
	"os"

	"verifgen/uni"
)

func main() {
	level := flag.Int("level", 1, "universe level")
	out := flag.String("out", "", "output .tl file")
	_ = flag.String("universe", "", "accepted for command-line compatibility with unigen; ignored")
	flag.Parse()
	s, _, funcs := uni.FuncUniverse(*level)
	if err := os.WriteFile(*out, []byte(uni.FuncText(s)), 0o644); err != nil {
		fmt.Fprintln(os.Stderr, err)
		os.Exit(2)
	}
	fmt.Printf("function universe level %d: %d declarations, %d top-level items, %d functions\n", *level, len(s.Structs), len(s.Tops), len(funcs))
}
