// unigen_tl2x writes uni.UniverseTL2X() (extra universe of the TL2-side checks) as TL1 text.
package main

import (
	"flag"
	"fmt"
	"os"

	"verifgen/uni"
)

func main() {
	out := flag.String("out", "", "output .tl file")
	flag.Parse()
	s := uni.UniverseTL2X()
	if err := os.WriteFile(*out, []byte(s.Text()), 0o644); err != nil {
		fmt.Fprintln(os.Stderr, err)
		os.Exit(2)
	}
	fmt.Printf("universe tl2x: %d declarations, %d top-level items\n", len(s.Structs), len(s.Tops))
}
