// unigen_tl2x writes uni.UniverseTL2X() (extra universe of the TL2-side checks) as TL1 text, or with -native
// uni.UniverseTL2N() (TL2-native types: reserved `_` fields, bit arrays) as TL2 source text.
package main

import (
	"flag"
	"fmt"
	"os"

	"verifgen/uni"
)

func main() {
	out := flag.String("out", "", "output .tl file")
	native := flag.Bool("native", false, "write uni.UniverseTL2N() as TL2 source text instead")
	flag.Parse()
	if *native {
		n := uni.UniverseTL2N()
		if err := os.WriteFile(*out, []byte(n.TextTL2()), 0o644); err != nil {
			fmt.Fprintln(os.Stderr, err)
			os.Exit(2)
		}
		fmt.Printf("universe tl2n (TL2-native): %d declarations, %d top-level items\n", len(n.Structs), len(n.Tops))
		return
	}
	s := uni.UniverseTL2X()
	if err := os.WriteFile(*out, []byte(s.Text()), 0o644); err != nil {
		fmt.Fprintln(os.Stderr, err)
		os.Exit(2)
	}
	fmt.Printf("universe tl2x: %d declarations, %d top-level items\n", len(s.Structs), len(s.Tops))
}
