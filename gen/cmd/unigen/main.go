// unigen writes the schema universe as TL1 text.
package main

import (
	"flag"
	"fmt"
	"os"

	"verifgen/uni"
)

func main() {
	level := flag.Int("level", 1, "universe level")
	out := flag.String("out", "", "output .tl file")
	universe := flag.String("universe", "", "\"\" = uni.Universe(level); \"reg\" = uni.UniverseReg(level) (registry/function universe; level 0 = alone, >= 1 merged with Universe(level)); \"regtl2\" = uni.RegTL2Universe() (TL2 source text)")
	flag.Parse()
	if *universe == "c08x" {
		sx := uni.UniverseC08X()
		if err := os.WriteFile(*out, []byte(sx.Text()), 0o644); err != nil {
			fmt.Fprintln(os.Stderr, err)
			os.Exit(2)
		}
		fmt.Printf("C08 extra universe: %d declarations, %d top-level items\n", len(sx.Structs), len(sx.Tops))
		return
	}
	if *universe == "regtl2" {
		text, items := uni.RegTL2Universe()
		if err := os.WriteFile(*out, []byte(text), 0o644); err != nil {
			fmt.Fprintln(os.Stderr, err)
			os.Exit(2)
		}
		fmt.Printf("TL2-source registry universe: %d expected registry items\n", len(items))
		return
	}
	if *universe == "reg" {
		ru := uni.UniverseReg(*level)
		if err := os.WriteFile(*out, []byte(ru.Text()), 0o644); err != nil {
			fmt.Fprintln(os.Stderr, err)
			os.Exit(2)
		}
		fmt.Printf("registry universe: %d declarations, %d expected registry items\n", len(ru.S.Structs), len(ru.Items))
		return
	}
	s, _ := uni.Universe(*level)
	if err := os.WriteFile(*out, []byte(s.Text()), 0o644); err != nil {
		fmt.Fprintln(os.Stderr, err)
		os.Exit(2)
	}
	fmt.Printf("universe level %d: %d declarations, %d top-level items\n", *level, len(s.Structs), len(s.Tops))
}
