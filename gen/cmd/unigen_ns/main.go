// unigen_ns writes the namespaced schema universe (uni.UniverseNS) as one .tl file per namespace plus common.tl.
package main

import (
	"flag"
	"fmt"
	"os"
	"path/filepath"

	"verifgen/uni"
)

func main() {
	level := flag.Int("level", 1, "universe level")
	outdir := flag.String("outdir", "", "output directory")
	funcs := flag.Bool("funcs", false, "build from uni.FuncUniverse (functions in namespaces f1, f2)")
	flag.Parse()
	n := uni.UniverseNS(*level)
	if *funcs {
		n = uni.UniverseNSFuncs(*level)
	}
	if err := os.MkdirAll(*outdir, 0o755); err != nil {
		fmt.Fprintln(os.Stderr, err)
		os.Exit(2)
	}
	for name, text := range n.Files() {
		if err := os.WriteFile(filepath.Join(*outdir, name), []byte(text), 0o644); err != nil {
			fmt.Fprintln(os.Stderr, err)
			os.Exit(2)
		}
	}
	cnt := map[string]int{}
	for _, d := range n.S.Structs {
		cnt[n.NS[d]]++
	}
	fmt.Printf("namespaced universe level %d: %d declarations %v, %d top-level items\n", *level, len(n.S.Structs), cnt, len(n.S.Tops))
}
