package uni

import (
	"fmt"
	"strings"
)

// Builder assembles a Schema; every constructor gets an explicit, unique, non-zero tag so that the reference never
// needs the CRC32 rule (that rule is C23's subject).
type Builder struct {
	S    *Schema
	NS   string
	next uint32
	cnt  int
}

func NewBuilder(ns string) *Builder {
	return &Builder{S: &Schema{}, NS: ns, next: 0x10000001}
}

func (b *Builder) tag() uint32 { t := b.next; b.next++; return t }

func upFirst(s string) string { return strings.ToUpper(s[:1]) + s[1:] }

// Struct declares a single-constructor type ns.<name> = ns.<Name>.
func (b *Builder) Struct(name string, natParams []string, fields ...Field) *StructDef {
	d := &StructDef{Name: b.NS + "." + name, TypeName: b.NS + "." + upFirst(name), Tag: b.tag(), NatParams: natParams, Fields: fields}
	b.S.Structs = append(b.S.Structs, d)
	return d
}

// Top declares a struct and registers it as a top-level item (must have no template parameters).
func (b *Builder) Top(fields ...Field) *StructDef {
	b.cnt++
	d := b.Struct(fmt.Sprintf("t%d", b.cnt), nil, fields...)
	b.S.Tops = append(b.S.Tops, d)
	return d
}

// Union declares a multi-constructor type.
func (b *Builder) Union(typeName string, variants ...*StructDef) *UnionDef {
	u := &UnionDef{TypeName: b.NS + "." + typeName}
	for _, v := range variants {
		v.TypeName = u.TypeName
		v.Union = u
		u.Variants = append(u.Variants, v)
	}
	b.S.Unions = append(b.S.Unions, u)
	return u
}

// Variant creates (and declares) a constructor to be put into a Union.
func (b *Builder) Variant(name string, fields ...Field) *StructDef {
	d := &StructDef{Name: b.NS + "." + name, Tag: b.tag(), Fields: fields}
	b.S.Structs = append(b.S.Structs, d)
	return d
}

// Func declares a function; functions are top-level items.
func (b *Builder) Func(name string, annot []string, result *Type, fields ...Field) *StructDef {
	d := &StructDef{Name: b.NS + "." + name, Tag: b.tag(), Fields: fields, IsFunc: true, Result: result, Annot: annot}
	return d // appended by Finish so that functions come last
}

var (
	TInt    = &Type{Kind: KInt}
	TLong   = &Type{Kind: KLong}
	TDouble = &Type{Kind: KDouble}
	TFloat  = &Type{Kind: KFloat}
	TString = &Type{Kind: KString}
	TNat    = &Type{Kind: KNat}
	TBool   = &Type{Kind: KBool}
	TTrue   = &Type{Kind: KTrue}
	TIntB   = &Type{Kind: KInt, Boxed: true}
	TStrB   = &Type{Kind: KString, Boxed: true}
)

func F(name string, t *Type) Field                 { return Field{Name: name, T: t} }
func FM(name string, t *Type, src Nat, bit int) Field { return Field{Name: name, T: t, Mask: &Mask{Src: src, Bit: bit}} }

func Vec(e *Type) *Type          { return &Type{Kind: KVector, Elem: e} }
func VecAngle(e *Type) *Type     { return &Type{Kind: KVector, Elem: e, Angle: true} }
func VecBoxed(e *Type) *Type     { return &Type{Kind: KVector, Elem: e, Boxed: true} }
func Tup(e *Type, n Nat) *Type   { return &Type{Kind: KTuple, Elem: e, Size: n} }
func TupAngle(e *Type, n Nat) *Type { return &Type{Kind: KTuple, Elem: e, Size: n, Angle: true} }
func Maybe(e *Type) *Type        { return &Type{Kind: KMaybe, Elem: e} }
func Dict(e *Type) *Type         { return &Type{Kind: KDict, Elem: e} }
func DictAny(k, e *Type) *Type   { return &Type{Kind: KDictAny, Key: k, Elem: e} }
func Ref(d *StructDef, args ...Nat) *Type { return &Type{Kind: KStruct, Def: d, Args: args} }
func RefBoxed(d *StructDef, args ...Nat) *Type {
	return &Type{Kind: KStruct, Def: d, Args: args, Boxed: true}
}
func URef(u *UnionDef) *Type { return &Type{Kind: KUnion, U: u} }

// Helpers are the shared declarations of a universe.
type Helpers struct {
	St, Empty, Td, Ar, Om, Thru, Rec, RecM, Big, RecMask *StructDef
	En, Un                                             *UnionDef
}

// Universe builds the schema universe. level 1: all depth-1 type expressions in all field contexts;
// level 2 adds all depth-2 compositions of the core constructors.
func Universe(level int) (*Schema, *Helpers) {
	b := NewBuilder("u")
	h := &Helpers{}
	h.St = b.Struct("st", nil, F("a", TInt), F("b", TString))
	h.Empty = b.Struct("empty", nil)
	h.Td = b.Struct("td", nil, F("", TInt))
	h.En = b.Union("En", b.Variant("e0"), b.Variant("e1"), b.Variant("e2"))
	h.Un = b.Union("Un", b.Variant("v0", F("x", TInt)), b.Variant("v1", F("s", TString)), b.Variant("v2"))
	h.Ar = b.Struct("ar", []string{"n"}, F("a", Tup(TInt, OuterN(0))))
	h.Om = b.Struct("om", []string{"m"}, FM("a", TInt, OuterN(0), 0), FM("b", TString, OuterN(0), 1), FM("c", TTrue, OuterN(0), 31))
	h.Thru = b.Struct("thru", []string{"n", "m"}, F("x", Ref(h.Ar, OuterN(0))), F("y", Ref(h.Om, OuterN(1))))
	// recursion through a masked field
	h.Rec = b.Struct("rec", nil, F("m", TNat))
	h.Rec.Fields = append(h.Rec.Fields, FM("next", Ref(h.Rec), FieldN(0), 0), FM("v", TInt, FieldN(0), 1))
	// recursion through Maybe
	h.RecM = b.Struct("recm", nil, F("v", TInt))
	h.RecM.Fields = append(h.RecM.Fields, F("next", Maybe(Ref(h.RecM))))
	// recursive field masks: a mask that is itself masked
	h.RecMask = b.Struct("recmask", nil, F("f0", TNat), FM("f1", TNat, FieldN(0), 0), FM("f2", TNat, FieldN(1), 1),
		FM("t1", TTrue, FieldN(0), 0), FM("t2", TTrue, FieldN(1), 1), FM("t3", TTrue, FieldN(2), 2), FM("i3", TInt, FieldN(2), 3))
	// >= 16 fields: second and third TL2 mask byte
	var big []Field
	for i := 0; i < 18; i++ {
		switch i % 3 {
		case 0:
			big = append(big, F(fmt.Sprintf("f%d", i), TInt))
		case 1:
			big = append(big, F(fmt.Sprintf("f%d", i), TString))
		default:
			big = append(big, F(fmt.Sprintf("f%d", i), TBool))
		}
	}
	h.Big = b.Struct("big", nil, big...)

	leaves := []*Type{TInt, TLong, TDouble, TFloat, TString, TNat, TBool, TTrue, TIntB, TStrB}
	refs := []*Type{Ref(h.St), RefBoxed(h.St), Ref(h.Empty), Ref(h.Td), URef(h.En), URef(h.Un), Ref(h.Ar, Const(2)),
		Ref(h.Om, Const(3)), Ref(h.Rec), Ref(h.RecM), Ref(h.RecMask), Ref(h.Big)}

	// contexts for a type expression X
	ctxPlain := func(x *Type) { b.Top(F("x", x)) }
	ctxMask := func(x *Type, bit int) { b.Top(F("m", TNat), FM("x", x, FieldN(0), bit)) }
	ctxSurround := func(x *Type) { b.Top(F("a", TInt), F("x", x), F("b", TString)) }
	ctxOuter := func(x *Type) {
		b.cnt++
		in := b.Struct(fmt.Sprintf("in%d", b.cnt), []string{"m"}, FM("x", x, OuterN(0), 1), F("z", TInt))
		b.S.Tops = append(b.S.Tops, b.Struct(fmt.Sprintf("t%d", b.cnt), nil, F("m", TNat), F("v", Ref(in, FieldN(0)))))
	}
	for _, x := range append(append([]*Type{}, leaves...), refs...) {
		if x.Kind == KNat {
			b.Top(F("x", x))
			ctxMask(x, 0)
			continue
		}
		ctxPlain(x)
		ctxSurround(x)
		if x.Kind == KStruct && x.Def == h.Empty {
			// these contexts are appended at the very end of the universe (see below): the generated code for a
			// user-declared empty struct under a field mask did not compile before /repo 4e7f9d5b
			continue
		}
		ctxMask(x, 0)
		ctxMask(x, 31)
		ctxOuter(x)
	}
	// nat-parameter plumbing from local fields
	b.Top(F("n", TNat), F("v", Ref(h.Ar, FieldN(0))))
	b.Top(F("n", TNat), F("v", Ref(h.Om, FieldN(0))))
	b.Top(F("n", TNat), F("m", TNat), F("v", Ref(h.Thru, FieldN(0), FieldN(1))))
	b.Top(F("m", TNat), F("v", Ref(h.Thru, Const(2), FieldN(0))))
	b.Top(F("n", TNat), F("k", TNat), FM("a", Tup(TInt, FieldN(1)), FieldN(0), 0), FM("b", Tup(TInt, FieldN(1)), FieldN(0), 1))

	elems := []*Type{TInt, TLong, TString, TBool, TTrue, TDouble, Ref(h.St), RefBoxed(h.St), Ref(h.Empty), URef(h.En), URef(h.Un),
		Ref(h.Td), Ref(h.Om, Const(1))}
	type ctor func(e *Type) (*Type, bool) // bool: needs a local size field n before it
	ctors := []ctor{
		func(e *Type) (*Type, bool) { return Vec(e), false },
		func(e *Type) (*Type, bool) { return VecBoxed(e), false },
		func(e *Type) (*Type, bool) { return Tup(e, Const(3)), false },
		func(e *Type) (*Type, bool) { return TupAngle(e, Const(0)), false },
		func(e *Type) (*Type, bool) { return Tup(e, FieldN(0)), true },
		func(e *Type) (*Type, bool) { return Maybe(e), false },
		func(e *Type) (*Type, bool) { return Dict(e), false },
		func(e *Type) (*Type, bool) { return DictAny(TInt, e), false },
		func(e *Type) (*Type, bool) { return DictAny(TString, e), false },
		func(e *Type) (*Type, bool) { return DictAny(TLong, e), false },
	}
	place := func(x *Type, sized bool, masked bool) {
		var fs []Field
		if sized {
			fs = append(fs, F("n", TNat))
		}
		if masked {
			fs = append(fs, F("m", TNat))
			fs = append(fs, FM("x", x, FieldN(len(fs)-1), 2))
		} else {
			fs = append(fs, F("x", x))
		}
		b.Top(fs...)
	}
	for _, c := range ctors {
		for _, e := range elems {
			x, sized := c(e)
			place(x, sized, false)
			place(x, sized, true)
		}
	}
	if level >= 2 {
		core := []ctor{ctors[0], ctors[2], ctors[4], ctors[5], ctors[6], ctors[7]}
		inner := []*Type{TInt, TString, TBool, TTrue, Ref(h.St), URef(h.Un)}
		for _, c1 := range core {
			for _, c2 := range core {
				for _, e := range inner {
					x2, s2 := c2(e)
					if s2 {
						// inner sized array: both levels use the same local field n
					}
					x1, s1 := c1(x2)
					place(x1, s1 || s2, false)
				}
			}
		}
	}
	// aliasing-prone shapes (containers whose elements own slices); appended last so that the names of all earlier
	// types stay stable. At level 2 most of them exist already; duplicates are harmless.
	vs := b.Struct("vs", nil, F("a", Vec(TInt)), F("s", TString))
	for _, x := range []*Type{Dict(Vec(TInt)), DictAny(TInt, Vec(TString)), Vec(Vec(TInt)), Vec(Dict(TInt)), Dict(Ref(vs)),
		Vec(Ref(vs)), Maybe(Vec(TString)), Tup(Vec(TInt), Const(3)), Dict(Dict(TString))} {
		place(x, false, false)
	}
	// user-declared empty struct under local / outer field masks (did not compile before /repo 4e7f9d5b)
	ctxMask(Ref(h.Empty), 0)
	ctxMask(Ref(h.Empty), 31)
	ctxOuter(Ref(h.Empty))
	return b.S, h
}
