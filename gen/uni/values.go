package uni

import (
	"fmt"
	"math"
	"sort"
	"strings"
)

// Value is a tree value of a Type. Absent (masked-out) struct fields are nil.
type Value struct {
	I       int64    // KInt, KLong
	N       uint32   // KNat
	Fb      uint64   // KDouble (float64 bits) / KFloat (float32 bits)
	S       string   // KString
	B       bool     // KBool; KMaybe: present
	Elems   []*Value // KVector, KTuple, KDict, KDictAny (entries are 2-field structs key,value), KMaybe (0 or 1 element)
	Fields  []*Value // KStruct
	Variant int      // KUnion (Fields = fields of that variant)
}

// Env is the nat environment of a struct instance being walked.
type Env struct {
	Outer  []uint32 // actual values of the struct's nat template parameters
	Fields []*Value // values of the struct's fields decoded/enumerated so far
}

// NatVal resolves a nat reference. An absent (masked-out) nat field counts as 0.
func (e *Env) NatVal(n Nat) uint32 {
	switch n.Kind {
	case NConst:
		return n.V
	case NField:
		if n.Idx < len(e.Fields) && e.Fields[n.Idx] != nil {
			return e.Fields[n.Idx].N
		}
		return 0
	default:
		return e.Outer[n.Idx]
	}
}

func (e *Env) args(t *Type) []uint32 {
	var out []uint32
	for _, a := range t.Args {
		out = append(out, e.NatVal(a))
	}
	return out
}

// Present reports whether field f is present in env.
func (e *Env) Present(f *Field) bool {
	if f.Mask == nil {
		return true
	}
	return e.NatVal(f.Mask.Src)>>uint(f.Mask.Bit)&1 == 1
}

// ---------------------------------------------------------------------------------------------------------------
// nat usage analysis: how is the nat value held by field idx of def (or by outer parameter idx) used?

type natUse struct {
	size bool
	bits map[int]bool
}

func (u *natUse) merge(o natUse) {
	u.size = u.size || o.size
	for b := range o.bits {
		if u.bits == nil {
			u.bits = map[int]bool{}
		}
		u.bits[b] = true
	}
}

func sameNat(a Nat, kind NatKind, idx int) bool { return a.Kind == kind && a.Idx == idx }

func typeNatUse(t *Type, kind NatKind, idx int, depth int) natUse {
	var u natUse
	if t == nil || depth > 6 {
		return u
	}
	switch t.Kind {
	case KTuple:
		if sameNat(t.Size, kind, idx) {
			u.size = true
		}
		u.merge(typeNatUse(t.Elem, kind, idx, depth))
	case KVector, KMaybe, KDict:
		u.merge(typeNatUse(t.Elem, kind, idx, depth))
	case KDictAny:
		u.merge(typeNatUse(t.Key, kind, idx, depth))
		u.merge(typeNatUse(t.Elem, kind, idx, depth))
	case KStruct:
		for pi, a := range t.Args {
			if sameNat(a, kind, idx) {
				u.merge(defNatUse(t.Def, NOuter, pi, depth+1))
			}
		}
	}
	return u
}

func defNatUse(d *StructDef, kind NatKind, idx int, depth int) natUse {
	var u natUse
	for i := range d.Fields {
		f := &d.Fields[i]
		if f.Mask != nil && sameNat(f.Mask.Src, kind, idx) {
			if u.bits == nil {
				u.bits = map[int]bool{}
			}
			u.bits[f.Mask.Bit] = true
		}
		u.merge(typeNatUse(f.T, kind, idx, depth))
	}
	return u
}

// natDomain: ordered value domain of a nat field; first element is the default (cost 0).
func natDomain(d *StructDef, idx int) []uint32 {
	u := defNatUse(d, NField, idx, 0)
	if u.size {
		out := []uint32{0, 1, 2}
		if len(u.bits) > 0 {
			out = append(out, 3)
		}
		return out
	}
	if len(u.bits) > 0 {
		var bits []int
		for b := range u.bits {
			bits = append(bits, b)
		}
		sort.Ints(bits)
		out := []uint32{0}
		all := uint32(0)
		for _, b := range bits {
			out = append(out, 1<<uint(b))
			all |= 1 << uint(b)
		}
		if len(bits) > 1 {
			out = append(out, all)
		}
		// a bit the schema gives no meaning to, together with all meaningful ones
		for _, spare := range []int{5, 6, 30} {
			if !u.bits[spare] {
				out = append(out, all|1<<uint(spare))
				break
			}
		}
		return out
	}
	return []uint32{0, 1, 0xffffffff}
}

// ---------------------------------------------------------------------------------------------------------------
// deviation-bounded enumeration

// VC is a value with its deviation cost.
type VC struct {
	V *Value
	C int
}

// Domains can be widened by a check (C05 does); index 0 is the default.
type Domains struct {
	Int    []int64
	Long   []int64
	Double []uint64
	Float  []uint64
	String []string
	VecLen []int
	MaxDepth int // recursion guard for recursive types
}

func DefaultDomains() *Domains {
	return &Domains{
		Int:    []int64{0, 1, -1},
		Long:   []int64{0, 1, math.MinInt64},
		Double: []uint64{0, math.Float64bits(1.5)},
		Float:  []uint64{0, uint64(math.Float32bits(1.5))},
		String: []string{"", "a", "xyz", "abcd"},
		VecLen: []int{0, 1, 2},
		MaxDepth: 3,
	}
}

var dictKeysStr = []string{"", "a", "b"}

// Enum returns every value of t (in env) whose deviation cost is <= k, simplest first within each construction.
func (dm *Domains) Enum(t *Type, env *Env, k int) []VC {
	return dm.enum(t, env, k, 0)
}

func (dm *Domains) enum(t *Type, env *Env, k int, depth int) []VC {
	switch t.Kind {
	case KInt:
		return leafs(k, len(dm.Int), func(i int) *Value { return &Value{I: dm.Int[i]} })
	case KLong:
		return leafs(k, len(dm.Long), func(i int) *Value { return &Value{I: dm.Long[i]} })
	case KDouble:
		return leafs(k, len(dm.Double), func(i int) *Value { return &Value{Fb: dm.Double[i]} })
	case KFloat:
		return leafs(k, len(dm.Float), func(i int) *Value { return &Value{Fb: dm.Float[i]} })
	case KString:
		return leafs(k, len(dm.String), func(i int) *Value { return &Value{S: dm.String[i]} })
	case KNat:
		d := []uint32{0, 1, 0xffffffff}
		return leafs(k, len(d), func(i int) *Value { return &Value{N: d[i]} })
	case KBool:
		return leafs(k, 2, func(i int) *Value { return &Value{B: i == 1} })
	case KTrue:
		return []VC{{&Value{}, 0}}
	case KVector:
		var out []VC
		for _, L := range dm.VecLen {
			c := 0
			if L > 0 {
				c = 1
			}
			if c > k {
				continue
			}
			out = append(out, dm.elems(t.Elem, env, L, k-c, c, depth, nil)...)
		}
		return out
	case KTuple:
		n := int(env.NatVal(t.Size))
		if n > 8 {
			n = 8 // never reached with the size domains used; guards the enumeration
		}
		return dm.elems(t.Elem, env, n, k, 0, depth, nil)
	case KMaybe:
		out := []VC{{&Value{}, 0}}
		if k >= 1 {
			for _, e := range dm.enum(t.Elem, env, k-1, depth) {
				out = append(out, VC{&Value{B: true, Elems: []*Value{e.V}}, e.C + 1})
			}
		}
		return out
	case KDict, KDictAny:
		var out []VC
		for _, L := range dm.VecLen {
			c := 0
			if L > 0 {
				c = 1
			}
			if c > k {
				continue
			}
			keyOf := func(i int) *Value {
				if t.Kind == KDict || t.Key.Kind == KString {
					return &Value{S: dictKeysStr[i]}
				}
				return &Value{I: int64(i)}
			}
			for _, vs := range dm.elems(t.Elem, env, L, k-c, c, depth, nil) {
				v := &Value{}
				for i, e := range vs.V.Elems {
					v.Elems = append(v.Elems, &Value{Fields: []*Value{keyOf(i), e}})
				}
				out = append(out, VC{v, vs.C})
			}
		}
		return out
	case KStruct:
		if depth > dm.MaxDepth {
			return []VC{{DefaultValue(t, env), 0}}
		}
		var out []VC
		dm.fields(t.Def, env.args(t), 0, nil, k, 0, depth+1, func(fs []*Value, c int) {
			out = append(out, VC{&Value{Fields: append([]*Value(nil), fs...)}, c})
		})
		return out
	case KUnion:
		var out []VC
		for vi, vd := range t.U.Variants {
			c := 0
			if vi > 0 {
				c = 1
			}
			if c > k {
				continue
			}
			dm.fields(vd, nil, 0, nil, k-c, c, depth+1, func(fs []*Value, cc int) {
				out = append(out, VC{&Value{Variant: vi, Fields: append([]*Value(nil), fs...)}, cc})
			})
		}
		return out
	}
	panic("enum: bad kind")
}

func leafs(k, n int, mk func(i int) *Value) []VC {
	out := []VC{{mk(0), 0}}
	if k >= 1 {
		for i := 1; i < n; i++ {
			out = append(out, VC{mk(i), 1})
		}
	}
	return out
}

// elems enumerates n-element sequences of t with total extra cost <= k (base cost added).
func (dm *Domains) elems(t *Type, env *Env, n, k, base, depth int, _ []*Value) []VC {
	res := []VC{{&Value{}, base}}
	for i := 0; i < n; i++ {
		var next []VC
		for _, p := range res {
			for _, e := range dm.enum(t, env, k-(p.C-base), depth) {
				nv := &Value{Elems: append(append([]*Value(nil), p.V.Elems...), e.V)}
				next = append(next, VC{nv, p.C + e.C})
			}
		}
		res = next
	}
	return res
}

// fields enumerates the field values of a struct instance sequentially (later fields depend on earlier nat fields).
func (dm *Domains) fields(d *StructDef, outer []uint32, i int, cur []*Value, k, cost, depth int, emit func([]*Value, int)) {
	if i == len(d.Fields) {
		emit(cur, cost)
		return
	}
	f := &d.Fields[i]
	env := &Env{Outer: outer, Fields: cur}
	if !env.Present(f) {
		dm.fields(d, outer, i+1, append(cur, nil), k, cost, depth, emit)
		return
	}
	if f.T.Kind == KNat {
		dom := natDomain(d, i)
		for j, nv := range dom {
			c := 0
			if j > 0 {
				c = 1
			}
			if cost+c > k+cost-cost && c > k {
				continue
			}
			dm.fields(d, outer, i+1, append(cur[:len(cur):len(cur)], &Value{N: nv}), k-c, cost+c, depth, emit)
		}
		return
	}
	for _, e := range dm.enum(f.T, env, k, depth) {
		dm.fields(d, outer, i+1, append(cur[:len(cur):len(cur)], e.V), k-e.C, cost+e.C, depth, emit)
	}
}

// DefaultValue is the all-default value of t.
func DefaultValue(t *Type, env *Env) *Value {
	dm := &Domains{Int: []int64{0}, Long: []int64{0}, Double: []uint64{0}, Float: []uint64{0}, String: []string{""}, VecLen: []int{0}, MaxDepth: 1 << 30}
	// recursion always goes through a masked field or Maybe, whose default is absent, so this terminates
	return dm.enum(t, env, 0, 0)[0].V
}

// EnumTop enumerates the values of a top-level struct (no outer parameters).
func (dm *Domains) EnumTop(d *StructDef, k int) []VC {
	var out []VC
	dm.fields(d, nil, 0, nil, k, 0, 1, func(fs []*Value, c int) {
		out = append(out, VC{&Value{Fields: append([]*Value(nil), fs...)}, c})
	})
	return out
}

// String renders a value compactly for samples and violation reports.
func (v *Value) Render(t *Type) string {
	if v == nil {
		return "-"
	}
	switch t.Kind {
	case KInt, KLong:
		return fmt.Sprint(v.I)
	case KDouble:
		return fmt.Sprint(math.Float64frombits(v.Fb))
	case KFloat:
		return fmt.Sprint(math.Float32frombits(uint32(v.Fb)))
	case KString:
		return fmt.Sprintf("%q", v.S)
	case KNat:
		return fmt.Sprintf("#%d", v.N)
	case KBool:
		return fmt.Sprint(v.B)
	case KTrue:
		return "true"
	case KVector, KTuple:
		var p []string
		for _, e := range v.Elems {
			p = append(p, e.Render(t.Elem))
		}
		return "[" + strings.Join(p, ",") + "]"
	case KMaybe:
		if !v.B {
			return "nothing"
		}
		return "just(" + v.Elems[0].Render(t.Elem) + ")"
	case KDict, KDictAny:
		kt := TString
		if t.Kind == KDictAny {
			kt = t.Key
		}
		var p []string
		for _, e := range v.Elems {
			p = append(p, e.Fields[0].Render(kt)+":"+e.Fields[1].Render(t.Elem))
		}
		return "{" + strings.Join(p, ",") + "}"
	case KStruct:
		return RenderFields(t.Def, v.Fields)
	case KUnion:
		return RenderFields(t.U.Variants[v.Variant], v.Fields)
	}
	return "?"
}

func RenderFields(d *StructDef, fs []*Value) string {
	var p []string
	for i := range d.Fields {
		if i < len(fs) {
			p = append(p, d.Fields[i].Name+"="+fs[i].Render(d.Fields[i].T))
		}
	}
	return d.Name + "(" + strings.Join(p, " ") + ")"
}
