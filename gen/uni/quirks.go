package uni

// Known limitation of the generated TL1 readers (C01 finding, see /verif/known_findings.json): with length sanity checks
// enabled, vector / tuple readers demand 4 remaining bytes per element unless the element type is "empty" (0 bytes in
// TL1 AND no memory in Go). Element types that CAN be encoded in 0 bytes but occupy memory (a tuple sized by a nat
// parameter that is 0, arrays of `true`) make valid encodings unreadable. SanityQuirk tells the accept-set comparisons
// (C11, C12, C31 ...) which top-level types are affected so that they can leave them to C01.

func mayBeEmptyTL1(t *Type, depth int) bool {
	if t == nil || depth > 6 || t.Boxed {
		return false
	}
	switch t.Kind {
	case KTrue:
		return true
	case KTuple:
		if t.Size.Kind != NConst || t.Size.V == 0 {
			return true
		}
		return mayBeEmptyTL1(t.Elem, depth+1)
	case KStruct:
		for i := range t.Def.Fields {
			if t.Def.Fields[i].Mask == nil && !mayBeEmptyTL1(t.Def.Fields[i].T, depth+1) {
				return false
			}
		}
		return true
	}
	return false
}

func zeroMemGo(t *Type, depth int) bool {
	if t == nil || depth > 6 || t.Boxed {
		return false
	}
	switch t.Kind {
	case KTrue:
		return true
	case KTuple:
		if t.Size.Kind != NConst {
			return false
		}
		return t.Size.V == 0 || zeroMemGo(t.Elem, depth+1)
	case KStruct:
		for i := range t.Def.Fields {
			if t.Def.Fields[i].Mask != nil || !zeroMemGo(t.Def.Fields[i].T, depth+1) {
				return false
			}
		}
		return true
	}
	return false
}

func typeSanityQuirk(t *Type, seen map[*StructDef]bool) bool {
	if t == nil {
		return false
	}
	switch t.Kind {
	case KVector, KTuple:
		if mayBeEmptyTL1(t.Elem, 0) && !zeroMemGo(t.Elem, 0) {
			return true
		}
		return typeSanityQuirk(t.Elem, seen)
	case KMaybe, KDict, KDictAny:
		return typeSanityQuirk(t.Elem, seen)
	case KStruct:
		return defSanityQuirk(t.Def, seen)
	case KUnion:
		for _, v := range t.U.Variants {
			if defSanityQuirk(v, seen) {
				return true
			}
		}
	}
	return false
}

func defSanityQuirk(d *StructDef, seen map[*StructDef]bool) bool {
	if seen[d] {
		return false
	}
	seen[d] = true
	for i := range d.Fields {
		if typeSanityQuirk(d.Fields[i].T, seen) {
			return true
		}
	}
	return false
}

// SanityQuirk reports whether valid encodings of d can be rejected by the length sanity check (see above).
func SanityQuirk(d *StructDef) bool { return defSanityQuirk(d, map[*StructDef]bool{}) }
