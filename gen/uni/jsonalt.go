package uni

// Rewriter of C06: from the canonical JSON of a (type, value) it enumerates every documented alternative spelling
// (primer, "Взаимное соответствие с JSON") and every invalid mutation the property names, compositionally: an Alt of a
// node is built from Alts of its children, with the total number of rewrites bounded by a budget. It is driven by the
// schema model only. The reference reader (JSONDec*) is the oracle for every Alt; the rewriter merely states its
// intention (valid / invalid) so that the harness can check the rewriter against the reference.

import (
	"encoding/base64"
	"sort"
	"strconv"
	"strings"
)

// Alt is one spelling.
type Alt struct {
	J       *JV
	Cost    int      // number of rewrites applied (valid + invalid)
	Invalid int      // number of invalid mutations among them (0 or 1)
	Kinds   []string // names of the rewrites applied, in application order
}

// AltOpts bounds the enumeration.
type AltOpts struct {
	Budget  int  // maximal Cost
	Invalid bool // also produce spellings with exactly one invalid mutation
	NoTL2   bool // the type is generated without TL2: "true field given as false while its bit is set" is invalid
}

func (o AltOpts) fits(a Alt) bool {
	return a.Cost <= o.Budget && a.Invalid <= 1 && (o.Invalid || a.Invalid == 0)
}

func plus(a Alt, j *JV, cost, inv int, kind ...string) Alt {
	k := append(append([]string(nil), a.Kinds...), kind...)
	return Alt{J: j, Cost: a.Cost + cost, Invalid: a.Invalid + inv, Kinds: k}
}

func base(j *JV) Alt { return Alt{J: j} }

// part is one position of a product: its options; present=false options contribute no member/element.
type popt struct {
	Alt
	present bool
}

// product enumerates all choices of one option per part within the budget.
func product(parts [][]popt, o AltOpts, emit func(choice []popt, cost, inv int)) {
	choice := make([]popt, len(parts))
	var rec func(i, cost, inv int)
	rec = func(i, cost, inv int) {
		if i == len(parts) {
			emit(choice, cost, inv)
			return
		}
		for _, p := range parts[i] {
			c, n := cost+p.Cost, inv+p.Invalid
			if c > o.Budget || n > 1 || (n > 0 && !o.Invalid) {
				continue
			}
			choice[i] = p
			rec(i+1, c, n)
		}
	}
	rec(0, 0, 0)
}

func kindsOf(choice []popt) []string {
	var k []string
	for _, c := range choice {
		k = append(k, c.Kinds...)
	}
	return k
}

func mustCanon(t *Type, v *Value, env *Env) *JV {
	j, err := JSONCanon(t, v, env)
	if err != nil {
		panic(err)
	}
	return j
}

// objectExtras applies the object-level rewrites to an assembled member list: key order permutations (valid) and
// unknown / duplicate keys (invalid). first = emit the unmodified object too.
func objectExtras(mem []JMember, a Alt, o AltOpts, reorder bool, emit func(Alt)) {
	emit(plus(a, JObject(mem...), 0, 0))
	if reorder && len(mem) >= 2 {
		rev := make([]JMember, len(mem))
		for i := range mem {
			rev[len(mem)-1-i] = mem[i]
		}
		if x := plus(a, JObject(rev...), 1, 0, "key-order-reversed"); o.fits(x) {
			emit(x)
		}
		if len(mem) >= 3 {
			rot := append(append([]JMember(nil), mem[1:]...), mem[0])
			if x := plus(a, JObject(rot...), 1, 0, "key-order-rotated"); o.fits(x) {
				emit(x)
			}
		}
	}
	if !o.Invalid || a.Invalid > 0 {
		return
	}
	unk := append(append([]JMember(nil), mem...), JMember{"zz_unknown", JNumber("0")})
	if x := plus(a, JObject(unk...), 1, 1, "INVALID-unknown-key"); o.fits(x) {
		emit(x)
	}
	for i := range mem {
		dup := append(append([]JMember(nil), mem...), mem[i])
		if x := plus(a, JObject(dup...), 1, 1, "INVALID-duplicate-key"); o.fits(x) {
			emit(x)
		}
	}
}

// JSONAlts enumerates the spellings of a top-level value; the canonical one (Cost 0) comes first.
func JSONAlts(d *StructDef, v *Value, o AltOpts) []Alt {
	out := altFields(d, nil, v.Fields, o)
	sort.SliceStable(out, func(i, k int) bool { return out[i].Cost < out[k].Cost })
	return out
}

func altValue(t *Type, v *Value, env *Env, o AltOpts) []Alt {
	canon := mustCanon(t, v, env)
	out := []Alt{base(canon)}
	add := func(a Alt) {
		if o.fits(a) {
			out = append(out, a)
		}
	}
	switch t.Kind {
	case KInt, KLong, KNat:
		add(plus(base(nil), JString(canon.Num), 1, 0, "number-as-string"))
	case KDouble, KFloat:
		if canon.K == JNum {
			add(plus(base(nil), JString(canon.Num), 1, 0, "number-as-string"))
		}
	case KString:
		obj := canon
		var pre Alt
		if canon.K == JStr {
			obj = JObject(JMember{"base64", JString(base64.StdEncoding.EncodeToString([]byte(v.S)))})
			pre = plus(base(nil), nil, 1, 0, "string-as-base64")
			add(plus(pre, obj, 0, 0))
		}
		if o.Invalid {
			objectExtras(obj.O, pre, o, false, func(a Alt) {
				if a.Invalid > 0 {
					add(a)
				}
			})
		}
	case KBool, KTrue:
	case KVector, KTuple:
		parts := make([][]popt, len(v.Elems))
		for i, e := range v.Elems {
			for _, a := range altValue(t.Elem, e, env, o) {
				parts[i] = append(parts[i], popt{a, true})
			}
			if o.Invalid {
				parts[i] = append(parts[i], popt{plus(base(nil), JNullV(), 1, 1, "INVALID-null-element"), true})
			}
		}
		out = out[:0]
		product(parts, o, func(ch []popt, cost, inv int) {
			arr := JArray()
			for _, c := range ch {
				arr.A = append(arr.A, c.J)
			}
			out = append(out, Alt{J: arr, Cost: cost, Invalid: inv, Kinds: kindsOf(ch)})
		})
		if t.Kind == KTuple && o.Invalid {
			if n := len(canon.A); n > 0 {
				add(plus(base(nil), JArray(canon.A[:n-1]...), 1, 1, "INVALID-array-shorter-than-size"))
			}
			dv := DefaultValue(t.Elem, env)
			longer := append(append([]*JV(nil), canon.A...), mustCanon(t.Elem, dv, env))
			add(plus(base(nil), JArray(longer...), 1, 1, "INVALID-array-longer-than-size"))
		}
	case KMaybe:
		out = out[:0]
		okT := JMember{"ok", JBoolean(true)}
		okF := JMember{"ok", JBoolean(false)}
		if !v.B {
			objectExtras(nil, base(nil), o, false, add)
			objectExtras([]JMember{okF}, plus(base(nil), nil, 1, 0, "maybe-ok-false"), o, false, add)
			if o.Invalid {
				dj := mustCanon(t.Elem, DefaultValue(t.Elem, env), env)
				add(plus(base(nil), JObject(okF, JMember{"value", dj}), 1, 1, "INVALID-maybe-ok-false-with-value"))
			}
			break
		}
		inner := altValue(t.Elem, v.Elems[0], env, o)
		if o.Invalid {
			inner = append(inner, plus(base(nil), JNullV(), 1, 1, "INVALID-null-maybe-value"))
		}
		for _, in := range inner {
			val := JMember{"value", in.J}
			objectExtras([]JMember{okT, val}, in, o, false, add)
			if x := plus(in, nil, 1, 0, "maybe-value-without-ok"); o.fits(x) {
				objectExtras([]JMember{val}, x, o, false, add)
			}
			if x := plus(in, nil, 1, 0, "maybe-value-before-ok"); o.fits(x) {
				objectExtras([]JMember{val, okT}, x, o, false, add)
			}
			if o.Invalid && in.Invalid == 0 {
				add(plus(in, JObject(okF, val), 1, 1, "INVALID-maybe-ok-false-with-value"))
			}
		}
		if JSONIsEmpty(t.Elem, v.Elems[0], env) {
			if _, ok := JSONEmptyValue(t.Elem, env); ok {
				objectExtras([]JMember{okT}, plus(base(nil), nil, 1, 0, "maybe-ok-true-without-empty-value["+SafeTypeText(t)+"]"), o, false, add)
			}
		}
	case KDict, KDictAny:
		ch := false
		nv := Normalize(t, v, &ch)
		kt := dictKeyType(t)
		parts := make([][]popt, len(nv.Elems))
		for i, e := range nv.Elems {
			for _, a := range altValue(t.Elem, e.Fields[1], env, o) {
				parts[i] = append(parts[i], popt{a, true})
			}
			if o.Invalid {
				parts[i] = append(parts[i], popt{plus(base(nil), JNullV(), 1, 1, "INVALID-null-dictionary-value"), true})
			}
		}
		out = out[:0]
		product(parts, o, func(chs []popt, cost, inv int) {
			a := Alt{Cost: cost, Invalid: inv, Kinds: kindsOf(chs)}
			var mem []JMember
			for i, c := range chs {
				mem = append(mem, JMember{canon.O[i].Key, c.J})
			}
			add(plus(a, JObject(mem...), 0, 0))
			if len(mem) >= 2 {
				rev := make([]JMember, len(mem))
				for i := range mem {
					rev[len(mem)-1-i] = mem[i]
				}
				add(plus(a, JObject(rev...), 1, 0, "dictionary-keys-unsorted"))
			}
			// array of {key,value}
			for _, keyAsString := range []bool{false, true} {
				if keyAsString && kt.Kind == KString {
					continue
				}
				arr := JArray()
				for i, c := range chs {
					var kj *JV
					switch {
					case kt.Kind == KString:
						kj = JString(nv.Elems[i].Fields[0].S)
					case keyAsString:
						kj = JString(canon.O[i].Key)
					default:
						kj = JNumber(canon.O[i].Key)
					}
					arr.A = append(arr.A, JObject(JMember{"key", kj}, JMember{"value", c.J}))
				}
				if keyAsString {
					if len(chs) > 0 {
						add(plus(a, arr, 2, 0, "dictionary-as-pair-array["+dictSite(t)+"]", "number-as-string"))
					}
				} else {
					add(plus(a, arr, 1, 0, "dictionary-as-pair-array["+dictSite(t)+"]"))
				}
			}
		})
	case KStruct:
		if IsTypedef(t.Def) {
			return altValue(t.Def.Fields[0].T, v.Fields[0], &Env{Outer: env.args(t)}, o)
		}
		return altFields(t.Def, env.args(t), v.Fields, o)
	case KUnion:
		vd := t.U.Variants[v.Variant]
		name := JMember{"type", JString(vd.Name)}
		out = out[:0]
		if len(vd.Fields) == 0 {
			enum := IsEnum(t.U)
			strCost, objCost := 0, 1
			strKind, objKind := []string(nil), []string{"enum-as-object"}
			if !enum {
				strCost, objCost = 1, 0
				strKind, objKind = []string{"union-as-type-string"}, nil
			}
			add(plus(base(nil), JString(vd.Name), strCost, 0, strKind...))
			objectExtras([]JMember{name}, plus(base(nil), nil, objCost, 0, objKind...), o, false, add)
			ev := JMember{"value", JObject()}
			withValue := plus(base(nil), nil, 1, 0, map[bool]string{true: "enum-as-object-with-empty-value", false: "union-explicit-empty-value"}[enum])
			objectExtras([]JMember{name, ev}, withValue, o, false, add)
			if x := plus(withValue, nil, 1, 0, "type-after-value"); o.fits(x) {
				add(plus(x, JObject(ev, name), 0, 0))
			}
			break
		}
		inner := altFields(vd, nil, v.Fields, o)
		if o.Invalid {
			inner = append(inner, plus(base(nil), JNullV(), 1, 1, "INVALID-null-union-value"))
		}
		for _, in := range inner {
			val := JMember{"value", in.J}
			objectExtras([]JMember{name, val}, in, o, false, add)
			if x := plus(in, nil, 1, 0, "type-after-value"); o.fits(x) {
				objectExtras([]JMember{val, name}, x, o, false, add)
			}
		}
		if fieldsEmpty(vd, nil, v.Fields) {
			objectExtras([]JMember{name}, plus(base(nil), nil, 1, 0, "union-value-omitted-when-empty"), o, false, add)
		}
	}
	return out
}

// impliedBits: the bits of local mask field mi that the reader restores from the presence of the fields it governs.
func impliedBits(d *StructDef, fs []*Value, mi int) uint32 {
	var bits uint32
	for j := range d.Fields {
		f := &d.Fields[j]
		if f.Mask == nil || f.Mask.Src.Kind != NField || f.Mask.Src.Idx != mi || fs[j] == nil {
			continue
		}
		bits |= 1 << uint(f.Mask.Bit)
	}
	return bits
}

func altFields(d *StructDef, outer []uint32, fs []*Value, o AltOpts) []Alt {
	parts := make([][]popt, len(d.Fields))
	for i := range d.Fields {
		f := &d.Fields[i]
		env := &Env{Outer: outer, Fields: fs[:i]}
		var ps []popt
		addP := func(a Alt, present bool) {
			if o.fits(a) {
				ps = append(ps, popt{a, present})
			}
		}
		localMask := f.Mask != nil && f.Mask.Src.Kind == NField
		outerMask := f.Mask != nil && f.Mask.Src.Kind != NField
		isTrue := f.T.Kind == KTrue && !f.T.Boxed
		nullAlt := plus(base(nil), JNullV(), 1, 1, "INVALID-null-field")
		switch {
		case fs[i] == nil: // masked out
			addP(base(nil), false)
			if isTrue && localMask {
				addP(plus(base(nil), JBoolean(false), 1, 0, "true-field-false-with-bit-0"), true)
			}
			if outerMask && o.Invalid {
				var j *JV
				if isTrue {
					j = JBoolean(true)
				} else if dv, ok := JSONEmptyValue(f.T, env); ok {
					j = mustCanon(f.T, dv, env)
				}
				if j != nil && o.NoTL2 {
					addP(plus(base(nil), j, 1, 1, "INVALID-field-under-outer-mask-bit-0"), true)
				} else if j != nil {
					// not judged for TL2-enabled types (see JSONMode.NoTL2); generated so that the histogram shows it
					addP(plus(base(nil), j, 1, 0, "UNDEFINED-field-under-outer-mask-bit-0-with-TL2"), true)
				}
			}
			if o.Invalid && !(isTrue && f.Mask == nil) {
				addP(nullAlt, true)
			}
		case isTrue:
			switch {
			case localMask:
				addP(base(JBoolean(true)), true)
				addP(plus(base(nil), nil, 1, 0, "true-field-omitted-bit-kept"), false)
				if o.Invalid && o.NoTL2 {
					addP(plus(base(nil), JBoolean(false), 1, 1, "INVALID-true-field-false-with-bit-1"), true)
				}
				if o.Invalid {
					addP(nullAlt, true)
				}
			case outerMask:
				addP(base(nil), false)
				addP(plus(base(nil), JBoolean(true), 1, 0, "true-field-under-outer-mask-explicit"), true)
				if o.Invalid {
					addP(nullAlt, true)
				}
			default:
				addP(base(nil), false) // an unmasked true field: the primer only says it is omitted
			}
		case f.T.Kind == KNat:
			val := fs[i].N
			written := f.Mask != nil || val != 0
			spell := func(x uint32, a Alt) {
				num := strconv.FormatUint(uint64(x), 10)
				addP(plus(a, JNumber(num), 0, 0), true)
				addP(plus(a, JString(num), 1, 0, "number-as-string"), true)
			}
			if written {
				spell(val, base(nil))
			} else {
				addP(base(nil), false)
				spell(0, plus(base(nil), nil, 1, 0, "explicit-empty-field"))
			}
			imp := impliedBits(d, fs, i) & val
			for b := 0; b < 32; b++ {
				if imp>>uint(b)&1 == 1 {
					spell(val&^(1<<uint(b)), plus(base(nil), nil, 1, 0, "mask-bit-cleared"))
				}
			}
			if val != 0 && imp == val {
				addP(plus(base(nil), nil, 1, 0, "mask-field-removed"), false)
			}
			if val == 0 && f.Mask != nil {
				addP(plus(base(nil), nil, 1, 0, "masked-empty-field-omitted-bit-kept"), false)
			}
			if o.Invalid {
				addP(nullAlt, true)
			}
		default:
			empty := JSONIsEmpty(f.T, fs[i], env)
			_, emptyDefined := JSONEmptyValue(f.T, env)
			written := f.Mask != nil || !empty
			if written {
				for _, a := range altValue(f.T, fs[i], env, o) {
					addP(a, true)
				}
				if f.Mask != nil && empty && emptyDefined {
					addP(plus(base(nil), nil, 1, 0, "masked-empty-field-omitted-bit-kept"), false)
				}
			} else {
				addP(base(nil), false)
				for _, a := range altValue(f.T, fs[i], env, o) {
					addP(plus(a, a.J, 1, 0, "explicit-empty-field"), true)
				}
			}
			if o.Invalid {
				addP(nullAlt, true)
			}
		}
		parts[i] = ps
	}
	var out []Alt
	product(parts, o, func(ch []popt, cost, inv int) {
		var mem []JMember
		for i, c := range ch {
			if c.present {
				mem = append(mem, JMember{d.Fields[i].Name, c.J})
			}
		}
		objectExtras(mem, Alt{Cost: cost, Invalid: inv, Kinds: kindsOf(ch)}, o, true, func(a Alt) { out = append(out, a) })
	})
	return out
}

// AltKindKey joins the rewrite kinds of an alt (sorted) for histograms.
func AltKindKey(a Alt) string {
	if len(a.Kinds) == 0 {
		return "canonical"
	}
	var k []string
	for _, x := range a.Kinds {
		k = append(k, AltKindClass(x))
	}
	sort.Strings(k)
	return strings.Join(k, " + ")
}

var dummyDef = func() *StructDef {
	d := &StructDef{Name: "?"}
	for i := 0; i < 64; i++ {
		d.Fields = append(d.Fields, Field{Name: "f" + strconv.Itoa(i)})
		d.NatParams = append(d.NatParams, "p"+strconv.Itoa(i))
	}
	return d
}()

// dictSite names the generated reader template a dictionary type goes through: one per dictionary kind and key type.
func dictSite(t *Type) string {
	if t.Kind == KDict {
		return "dictionary<*>"
	}
	return "dictionaryAny<" + SafeTypeText(t.Key) + ",*>"
}

// SafeTypeText prints a type expression without its declaration context (nat references print as f<i> / p<i>).
func SafeTypeText(t *Type) string { return TypeText(t, dummyDef) }

// AltKindClass strips the per-type detail in brackets from a kind name.
func AltKindClass(k string) string {
	if i := strings.IndexByte(k, '['); i >= 0 {
		return k[:i]
	}
	return k
}

// HasMaskedMask reports whether a value of d can contain a field mask that is itself a masked field (then a third
// rewrite is needed to make a grand-child field the only witness of the outer mask bit).
func HasMaskedMask(d *StructDef) bool { return hasMaskedMask(d, map[*StructDef]bool{}) }

func hasMaskedMask(d *StructDef, seen map[*StructDef]bool) bool {
	if seen[d] {
		return false
	}
	seen[d] = true
	for i := range d.Fields {
		f := &d.Fields[i]
		if f.Mask != nil && f.Mask.Src.Kind == NField && d.Fields[f.Mask.Src.Idx].Mask != nil {
			return true
		}
		if typeHasMaskedMask(f.T, seen) {
			return true
		}
	}
	return false
}

func typeHasMaskedMask(t *Type, seen map[*StructDef]bool) bool {
	switch t.Kind {
	case KVector, KTuple, KMaybe, KDict, KDictAny:
		return typeHasMaskedMask(t.Elem, seen)
	case KStruct:
		return hasMaskedMask(t.Def, seen)
	case KUnion:
		for _, v := range t.U.Variants {
			if hasMaskedMask(v, seen) {
				return true
			}
		}
	}
	return false
}
