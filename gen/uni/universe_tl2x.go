package uni

import "fmt"

// UniverseTL2X is an additional universe for the TL2-side checks (C03, C04, C11 TL2 part, C13): shapes whose TL2 body
// needs a second or third mask byte with something other than a required scalar at the block boundary. For every
// position p in {6,7,8,14,15,16} (field index; index 0 is the field mask m) and every kind of field - bit (`m.3?true`),
// optional int, required struct, vector, Maybe, unmasked true, optional struct, Bool - one struct with fillers (one int, then Bool) before
// p, the field k at p and a trailing string; plus a union with a 9-field variant (as a field and as a vector element).
// Namespace x, tags from 0x20000001: it never collides with Universe(). Universe() itself is unchanged.
func UniverseTL2X() *Schema {
	b := NewBuilder("x")
	b.next = 0x20000001
	st := b.Struct("st", nil, F("a", TInt), F("b", TString))
	kinds := []func() Field{
		func() Field { return FM("k", TTrue, FieldN(0), 3) },
		func() Field { return FM("k", TInt, FieldN(0), 3) },
		func() Field { return F("k", Ref(st)) },
		func() Field { return F("k", Vec(TInt)) },
		func() Field { return F("k", Maybe(TInt)) },
		func() Field { return F("k", TTrue) },
		func() Field { return FM("k", Ref(st), FieldN(0), 3) },
		func() Field { return F("k", TBool) },
	}
	for _, p := range []int{6, 7, 8, 14, 15, 16} {
		for _, mk := range kinds {
			fs := []Field{F("m", TNat)}
			for i := 1; i < p; i++ {
				if i == 1 {
					fs = append(fs, F("f1", TInt))
				} else {
					fs = append(fs, F(fmt.Sprintf("f%d", i), TBool)) // two-valued fillers keep the value enumeration small
				}
			}
			fs = append(fs, mk(), F("z", TString))
			b.Top(fs...)
		}
	}
	var nine []Field
	for i := 0; i < 9; i++ {
		nine = append(nine, F(fmt.Sprintf("g%d", i), TInt))
	}
	ub := b.Union("Ub", b.Variant("ub0"), b.Variant("ub1", nine...), b.Variant("ub2", F("s", TString)))
	b.Top(F("u", URef(ub)))
	b.Top(F("a", TInt), F("v", Vec(URef(ub))))
	b.Top(F("m", TNat), FM("u", URef(ub), FieldN(0), 0), F("w", Maybe(URef(ub))))
	return b.S
}
