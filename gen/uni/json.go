package uni

// Reference for the TL <-> JSON correspondence, written from the TL primer, section "Взаимное соответствие с JSON"
// (/verif/notes/TLPrimer.extracted.txt lines 283-345; docs/go.md only points there, docs/tldoc.ru.md is silent).
// Stdlib only; never imports /repo. Three parts:
//   1. JV: a JSON value tree, a strict RFC 8259 parser (also the independent validity scanner of C05) and a printer;
//   2. JSONCanon*: the canonical JSON of a (type, value);
//   3. JSONDec*: the reference reader: the documented mapping with all documented alternative forms (lenient mode) or
//      only the canonical constructs (strict mode, used to bind the generated writer to the document).
// The reader is three-valued: a value, a *JSONReject (the document says "error"), or a *JSONUndefined (the document does
// not settle the input; callers must not judge the implementation on it).

import (
	"encoding/base64"
	"fmt"
	"math"
	"sort"
	"strconv"
	"strings"
	"unicode/utf8"
)

// ---------------------------------------------------------------------------------------------------------------
// JSON value tree

type JKind int

const (
	JNull JKind = iota
	JBool
	JNum
	JStr
	JArr
	JObj
)

type JMember struct {
	Key string
	V   *JV
}

// JV is a parsed JSON value. Object members keep their textual order and duplicates.
type JV struct {
	K   JKind
	B   bool
	Num string // the number literal as written
	S   string // decoded string (always valid UTF-8 when it comes from the parser)
	A   []*JV
	O   []JMember
}

func JNumber(text string) *JV  { return &JV{K: JNum, Num: text} }
func JString(s string) *JV     { return &JV{K: JStr, S: s} }
func JBoolean(b bool) *JV      { return &JV{K: JBool, B: b} }
func JObject(m ...JMember) *JV { return &JV{K: JObj, O: m} }
func JArray(a ...*JV) *JV      { return &JV{K: JArr, A: a} }
func JNullV() *JV              { return &JV{K: JNull} }

// Get returns the first member named key.
func (j *JV) Get(key string) *JV {
	for _, m := range j.O {
		if m.Key == key {
			return m.V
		}
	}
	return nil
}

// Clone copies the spine (objects and arrays); leaves are shared.
func (j *JV) Clone() *JV {
	switch j.K {
	case JArr:
		c := &JV{K: JArr, A: make([]*JV, len(j.A))}
		for i, e := range j.A {
			c.A[i] = e.Clone()
		}
		return c
	case JObj:
		c := &JV{K: JObj, O: make([]JMember, len(j.O))}
		for i, m := range j.O {
			c.O[i] = JMember{m.Key, m.V.Clone()}
		}
		return c
	}
	return j
}

func appendJSONString(w []byte, s string) []byte {
	const hexd = "0123456789abcdef"
	w = append(w, '"')
	for i := 0; i < len(s); i++ {
		c := s[i]
		switch {
		case c == '"' || c == '\\':
			w = append(w, '\\', c)
		case c < 0x20:
			w = append(w, '\\', 'u', '0', '0', hexd[c>>4], hexd[c&15])
		default:
			w = append(w, c)
		}
	}
	return append(w, '"')
}

// AppendText prints j without whitespace. Strings are written raw except for the characters RFC 8259 requires to be
// escaped (quote, backslash, controls), so the text is valid JSON iff every string in the tree is valid UTF-8.
func (j *JV) AppendText(w []byte) []byte {
	switch j.K {
	case JNull:
		return append(w, "null"...)
	case JBool:
		if j.B {
			return append(w, "true"...)
		}
		return append(w, "false"...)
	case JNum:
		return append(w, j.Num...)
	case JStr:
		return appendJSONString(w, j.S)
	case JArr:
		w = append(w, '[')
		for i, e := range j.A {
			if i > 0 {
				w = append(w, ',')
			}
			w = e.AppendText(w)
		}
		return append(w, ']')
	case JObj:
		w = append(w, '{')
		for i, m := range j.O {
			if i > 0 {
				w = append(w, ',')
			}
			w = appendJSONString(w, m.Key)
			w = append(w, ':')
			w = m.V.AppendText(w)
		}
		return append(w, '}')
	}
	panic("JV: bad kind")
}

func (j *JV) Text() string { return string(j.AppendText(nil)) }

// ---------------------------------------------------------------------------------------------------------------
// strict RFC 8259 parser

type jparser struct {
	b []byte
	i int
}

type JSONSyntaxError struct {
	Off int
	Msg string
}

func (e *JSONSyntaxError) Error() string { return fmt.Sprintf("offset %d: %s", e.Off, e.Msg) }

func (p *jparser) fail(msg string) error { return &JSONSyntaxError{p.i, msg} }

func (p *jparser) ws() {
	for p.i < len(p.b) {
		switch p.b[p.i] {
		case ' ', '\t', '\n', '\r':
			p.i++
		default:
			return
		}
	}
}

// ParseJSON parses exactly one JSON text per RFC 8259 (any value at top level, insignificant whitespace around it,
// nothing else). It rejects: raw control characters and invalid UTF-8 inside strings, unknown escapes, leading zeros,
// missing digits, trailing commas, trailing garbage, and an empty input.
func ParseJSON(b []byte) (*JV, error) {
	p := &jparser{b: b}
	p.ws()
	v, err := p.value(0)
	if err != nil {
		return nil, err
	}
	p.ws()
	if p.i != len(p.b) {
		return nil, p.fail("trailing characters after the JSON value")
	}
	return v, nil
}

func (p *jparser) lit(s string) bool {
	if len(p.b)-p.i >= len(s) && string(p.b[p.i:p.i+len(s)]) == s {
		p.i += len(s)
		return true
	}
	return false
}

func (p *jparser) value(depth int) (*JV, error) {
	if depth > 10000 {
		return nil, p.fail("nesting too deep")
	}
	if p.i >= len(p.b) {
		return nil, p.fail("unexpected end of input, value expected")
	}
	switch c := p.b[p.i]; {
	case c == '{':
		p.i++
		o := &JV{K: JObj}
		p.ws()
		if p.i < len(p.b) && p.b[p.i] == '}' {
			p.i++
			return o, nil
		}
		for {
			p.ws()
			if p.i >= len(p.b) || p.b[p.i] != '"' {
				return nil, p.fail("object key (string) expected")
			}
			k, err := p.str()
			if err != nil {
				return nil, err
			}
			p.ws()
			if p.i >= len(p.b) || p.b[p.i] != ':' {
				return nil, p.fail("':' expected")
			}
			p.i++
			p.ws()
			v, err := p.value(depth + 1)
			if err != nil {
				return nil, err
			}
			o.O = append(o.O, JMember{k, v})
			p.ws()
			if p.i >= len(p.b) {
				return nil, p.fail("unexpected end of input inside an object")
			}
			if p.b[p.i] == ',' {
				p.i++
				continue
			}
			if p.b[p.i] == '}' {
				p.i++
				return o, nil
			}
			return nil, p.fail("',' or '}' expected")
		}
	case c == '[':
		p.i++
		a := &JV{K: JArr}
		p.ws()
		if p.i < len(p.b) && p.b[p.i] == ']' {
			p.i++
			return a, nil
		}
		for {
			p.ws()
			v, err := p.value(depth + 1)
			if err != nil {
				return nil, err
			}
			a.A = append(a.A, v)
			p.ws()
			if p.i >= len(p.b) {
				return nil, p.fail("unexpected end of input inside an array")
			}
			if p.b[p.i] == ',' {
				p.i++
				continue
			}
			if p.b[p.i] == ']' {
				p.i++
				return a, nil
			}
			return nil, p.fail("',' or ']' expected")
		}
	case c == '"':
		s, err := p.str()
		if err != nil {
			return nil, err
		}
		return &JV{K: JStr, S: s}, nil
	case c == 't':
		if p.lit("true") {
			return &JV{K: JBool, B: true}, nil
		}
	case c == 'f':
		if p.lit("false") {
			return &JV{K: JBool}, nil
		}
	case c == 'n':
		if p.lit("null") {
			return &JV{K: JNull}, nil
		}
	case c == '-' || (c >= '0' && c <= '9'):
		return p.num()
	}
	return nil, p.fail("value expected")
}

func (p *jparser) num() (*JV, error) {
	st := p.i
	if p.b[p.i] == '-' {
		p.i++
	}
	digits := func() int {
		n := 0
		for p.i < len(p.b) && p.b[p.i] >= '0' && p.b[p.i] <= '9' {
			p.i++
			n++
		}
		return n
	}
	if p.i >= len(p.b) {
		return nil, p.fail("digit expected")
	}
	if p.b[p.i] == '0' {
		p.i++
	} else if digits() == 0 {
		return nil, p.fail("digit expected")
	}
	if p.i < len(p.b) && p.b[p.i] == '.' {
		p.i++
		if digits() == 0 {
			return nil, p.fail("digit expected after '.'")
		}
	}
	if p.i < len(p.b) && (p.b[p.i] == 'e' || p.b[p.i] == 'E') {
		p.i++
		if p.i < len(p.b) && (p.b[p.i] == '+' || p.b[p.i] == '-') {
			p.i++
		}
		if digits() == 0 {
			return nil, p.fail("digit expected in exponent")
		}
	}
	return &JV{K: JNum, Num: string(p.b[st:p.i])}, nil
}

func hex4(b []byte) (rune, bool) {
	if len(b) < 4 {
		return 0, false
	}
	var r rune
	for _, c := range b[:4] {
		switch {
		case c >= '0' && c <= '9':
			r = r<<4 | rune(c-'0')
		case c >= 'a' && c <= 'f':
			r = r<<4 | rune(c-'a'+10)
		case c >= 'A' && c <= 'F':
			r = r<<4 | rune(c-'A'+10)
		default:
			return 0, false
		}
	}
	return r, true
}

func (p *jparser) str() (string, error) {
	p.i++ // opening quote
	var out []byte
	for {
		if p.i >= len(p.b) {
			return "", p.fail("unterminated string")
		}
		c := p.b[p.i]
		switch {
		case c == '"':
			p.i++
			return string(out), nil
		case c < 0x20:
			return "", p.fail("raw control character inside a string")
		case c == '\\':
			p.i++
			if p.i >= len(p.b) {
				return "", p.fail("unterminated escape")
			}
			e := p.b[p.i]
			p.i++
			switch e {
			case '"', '\\', '/':
				out = append(out, e)
			case 'b':
				out = append(out, '\b')
			case 'f':
				out = append(out, '\f')
			case 'n':
				out = append(out, '\n')
			case 'r':
				out = append(out, '\r')
			case 't':
				out = append(out, '\t')
			case 'u':
				r, ok := hex4(p.b[p.i:])
				if !ok {
					return "", p.fail("4 hex digits expected after \\u")
				}
				p.i += 4
				if r >= 0xD800 && r < 0xDC00 { // high surrogate: combine with a following \uDC00..DFFF
					if len(p.b)-p.i >= 6 && p.b[p.i] == '\\' && p.b[p.i+1] == 'u' {
						if r2, ok2 := hex4(p.b[p.i+2:]); ok2 && r2 >= 0xDC00 && r2 < 0xE000 {
							p.i += 6
							r = 0x10000 + (r-0xD800)<<10 + (r2 - 0xDC00)
							out = utf8.AppendRune(out, r)
							continue
						}
					}
					r = utf8.RuneError // a lone surrogate is grammatical; it denotes no scalar value
				} else if r >= 0xDC00 && r < 0xE000 {
					r = utf8.RuneError
				}
				out = utf8.AppendRune(out, r)
			default:
				return "", p.fail("unknown escape")
			}
		case c < 0x80:
			out = append(out, c)
			p.i++
		default:
			r, n := utf8.DecodeRune(p.b[p.i:])
			if r == utf8.RuneError && n <= 1 {
				return "", p.fail("invalid UTF-8 inside a string")
			}
			out = append(out, p.b[p.i:p.i+n]...)
			p.i += n
		}
	}
}

// ---------------------------------------------------------------------------------------------------------------
// shared notions

// IsTypedef: a constructor with exactly one anonymous unmasked field is an alias of that field's type; its JSON is the
// JSON of the field (primer: "возможно косвенно, через typedef").
func IsTypedef(d *StructDef) bool {
	return len(d.Fields) == 1 && d.Fields[0].Name == "" && d.Fields[0].Mask == nil && d.Union == nil
}

// IsEnum: a union all of whose constructors have no fields ("Перечисления фактически являются разновидностью объединения").
func IsEnum(u *UnionDef) bool {
	for _, v := range u.Variants {
		if len(v.Fields) != 0 {
			return false
		}
	}
	return true
}

func dictKeyType(t *Type) *Type {
	if t.Kind == KDictAny {
		return t.Key
	}
	return TString
}

// JSONIsEmpty: is v the "empty value" of t (primer, "Общие принцип": 0, "", false, empty array, object with all fields
// empty, first constructor of a union). A float is empty only as +0 (the bit pattern of the value an absent field
// gets); an array whose length is dictated by a non-zero size parameter is not empty.
func JSONIsEmpty(t *Type, v *Value, env *Env) bool {
	switch t.Kind {
	case KInt, KLong:
		return v.I == 0
	case KNat:
		return v.N == 0
	case KDouble, KFloat:
		return v.Fb == 0
	case KString:
		return v.S == ""
	case KBool:
		return !v.B
	case KTrue:
		return true
	case KVector, KTuple, KDict, KDictAny:
		return len(v.Elems) == 0
	case KMaybe:
		return !v.B
	case KStruct:
		return fieldsEmpty(t.Def, env.args(t), v.Fields)
	case KUnion:
		return v.Variant == 0 && fieldsEmpty(t.U.Variants[0], nil, v.Fields)
	}
	return false
}

func fieldsEmpty(d *StructDef, outer []uint32, fs []*Value) bool {
	for i := range d.Fields {
		if fs[i] == nil {
			continue
		}
		if !JSONIsEmpty(d.Fields[i].T, fs[i], &Env{Outer: outer, Fields: fs[:i]}) {
			return false
		}
	}
	return true
}

// JSONEmptyValue is the value an absent field gets. ok=false: the document does not settle it (an array whose size
// parameter is non-zero: "пустой массив" contradicts "размер ... должен точно совпадать с параметром").
func JSONEmptyValue(t *Type, env *Env) (v *Value, ok bool) {
	v = DefaultValue(t, env)
	return v, !hasSizedElems(t, v, env)
}

func hasSizedElems(t *Type, v *Value, env *Env) bool {
	if v == nil {
		return false
	}
	switch t.Kind {
	case KTuple:
		return len(v.Elems) != 0
	case KStruct:
		outer := env.args(t)
		for i := range t.Def.Fields {
			if hasSizedElems(t.Def.Fields[i].T, v.Fields[i], &Env{Outer: outer, Fields: v.Fields[:i]}) {
				return true
			}
		}
	case KUnion:
		vd := t.U.Variants[v.Variant]
		for i := range vd.Fields {
			if hasSizedElems(vd.Fields[i].T, v.Fields[i], &Env{Fields: v.Fields[:i]}) {
				return true
			}
		}
	}
	return false
}

// ---------------------------------------------------------------------------------------------------------------
// canonical writer

// JSONUndefined: the document does not say what the JSON of / the value for this input is.
type JSONUndefined struct{ Why string }

func (e *JSONUndefined) Error() string { return "reference does not define: " + e.Why }

// JSONReject: the document says reading this is an error.
type JSONReject struct{ Why string }

func (e *JSONReject) Error() string { return "reference rejects: " + e.Why }

func undef(format string, a ...any) error  { return &JSONUndefined{fmt.Sprintf(format, a...)} }
func reject(format string, a ...any) error { return &JSONReject{fmt.Sprintf(format, a...)} }

// FloatText is the decimal representation (no exponent) that parses back to exactly the same float.
func FloatText(bits uint64, is32 bool) string {
	if is32 {
		return strconv.FormatFloat(float64(math.Float32frombits(uint32(bits))), 'f', -1, 32)
	}
	return strconv.FormatFloat(math.Float64frombits(bits), 'f', -1, 64)
}

func floatOf(bits uint64, is32 bool) float64 {
	if is32 {
		return float64(math.Float32frombits(uint32(bits)))
	}
	return math.Float64frombits(bits)
}

// JSONCanon is the canonical JSON of v:t. Choices where the primer leaves latitude ("по возможности"): a field that
// does not depend on a mask is written only if its value is not empty ("будет сохранено только если значение
// непустое"), whatever its type; a set Maybe always has "ok":true and "value"; a union constructor with fields always
// has "value"; object members are in declaration order.
func JSONCanon(t *Type, v *Value, env *Env) (*JV, error) {
	switch t.Kind {
	case KInt, KLong:
		return JNumber(strconv.FormatInt(v.I, 10)), nil
	case KNat:
		return JNumber(strconv.FormatUint(uint64(v.N), 10)), nil
	case KDouble, KFloat:
		f := floatOf(v.Fb, t.Kind == KFloat)
		switch {
		case math.IsNaN(f):
			return JString("NaN"), nil
		case math.IsInf(f, 1):
			return JString("+Inf"), nil
		case math.IsInf(f, -1):
			return JString("-Inf"), nil
		}
		return JNumber(FloatText(v.Fb, t.Kind == KFloat)), nil
	case KString:
		if utf8.ValidString(v.S) {
			return JString(v.S), nil
		}
		return JObject(JMember{"base64", JString(base64.StdEncoding.EncodeToString([]byte(v.S)))}), nil
	case KBool:
		return JBoolean(v.B), nil
	case KTrue:
		return JObject(), nil
	case KVector, KTuple:
		a := JArray()
		for _, e := range v.Elems {
			j, err := JSONCanon(t.Elem, e, env)
			if err != nil {
				return nil, err
			}
			a.A = append(a.A, j)
		}
		return a, nil
	case KMaybe:
		if !v.B {
			return JObject(), nil
		}
		j, err := JSONCanon(t.Elem, v.Elems[0], env)
		if err != nil {
			return nil, err
		}
		return JObject(JMember{"ok", JBoolean(true)}, JMember{"value", j}), nil
	case KDict, KDictAny:
		if !IsMapDict(t) {
			return nil, undef("a pair array whose key is neither string nor number")
		}
		ch := false
		nv := Normalize(t, v, &ch)
		o := JObject()
		kt := dictKeyType(t)
		for _, e := range nv.Elems {
			var key string
			if kt.Kind == KString {
				key = e.Fields[0].S
				if !utf8.ValidString(key) {
					return nil, undef("a dictionary key that is not valid UTF-8 (a JSON object key must be a string)")
				}
			} else {
				key = strconv.FormatInt(e.Fields[0].I, 10)
			}
			j, err := JSONCanon(t.Elem, e.Fields[1], env)
			if err != nil {
				return nil, err
			}
			o.O = append(o.O, JMember{key, j})
		}
		return o, nil
	case KStruct:
		if IsTypedef(t.Def) {
			return JSONCanon(t.Def.Fields[0].T, v.Fields[0], &Env{Outer: env.args(t)})
		}
		return JSONCanonFields(t.Def, env.args(t), v.Fields)
	case KUnion:
		vd := t.U.Variants[v.Variant]
		if IsEnum(t.U) {
			return JString(vd.Name), nil
		}
		o := JObject(JMember{"type", JString(vd.Name)})
		if len(vd.Fields) > 0 {
			j, err := JSONCanonFields(vd, nil, v.Fields)
			if err != nil {
				return nil, err
			}
			o.O = append(o.O, JMember{"value", j})
		}
		return o, nil
	}
	return nil, fmt.Errorf("JSONCanon: bad kind")
}

// JSONCanonFields writes a constructor's fields as a JSON object.
func JSONCanonFields(d *StructDef, outer []uint32, fs []*Value) (*JV, error) {
	o := JObject()
	for i := range d.Fields {
		f := &d.Fields[i]
		env := &Env{Outer: outer, Fields: fs[:i]}
		if !env.Present(f) {
			continue
		}
		if f.T.Kind == KTrue && !f.T.Boxed {
			// "True чаще всего опускается"; under a mask inside the object it duplicates the mask bit as true
			if f.Mask != nil && f.Mask.Src.Kind == NField {
				o.O = append(o.O, JMember{f.Name, JBoolean(true)})
			}
			continue
		}
		if f.Mask == nil && JSONIsEmpty(f.T, fs[i], env) {
			continue
		}
		j, err := JSONCanon(f.T, fs[i], env)
		if err != nil {
			return nil, err
		}
		o.O = append(o.O, JMember{f.Name, j})
	}
	return o, nil
}

// JSONCanonTop is the canonical JSON of a top-level value.
func JSONCanonTop(d *StructDef, v *Value) (*JV, error) { return JSONCanonFields(d, nil, v.Fields) }

// ---------------------------------------------------------------------------------------------------------------
// reference reader

// JSONMode selects what the reader admits.
type JSONMode struct {
	// Strict admits only what a writer following the primer may produce: numbers as numbers (NaN/+Inf/-Inf as those
	// three strings), strings as strings when valid UTF-8 and as {"base64"} otherwise, enums as strings, unions as
	// objects with "type" first, Maybe as {} or {"ok":true[,"value"]}, dictionaries as objects sorted by key without
	// duplicates, a masked field present exactly when its bit is set (in the mask value as written), a true-typed field
	// under a local mask as true exactly when the bit is set. Omission of an empty unmasked field is allowed, not
	// required ("по возможности").
	Strict bool
	// NoTL2: the type is generated without TL2; only then does the property demand that a true-typed field given as
	// false while its mask bit is set be rejected (the primer demands it always). The same scoping is applied to a
	// field given under an outer mask whose bit is 0 (primer: error; the property's reject list does not name it, and a
	// TL2-enabled object records the field in its own presence bits): with TL2 the reference leaves it undefined.
	NoTL2 bool
}

var intRe = func(s string) bool { // -?(0|[1-9][0-9]*)
	if strings.HasPrefix(s, "-") {
		s = s[1:]
	}
	if s == "" || (len(s) > 1 && s[0] == '0') {
		return false
	}
	for _, c := range []byte(s) {
		if c < '0' || c > '9' {
			return false
		}
	}
	return true
}

func decInt(text string, t *Type) (*Value, error) {
	if !intRe(text) || text == "-0" {
		return nil, undef("number %q for an integer type (only plain decimal integers are defined)", text)
	}
	switch t.Kind {
	case KNat:
		n, err := strconv.ParseUint(text, 10, 32)
		if err != nil {
			return nil, undef("integer %s out of range of #", text)
		}
		return &Value{N: uint32(n)}, nil
	case KInt:
		n, err := strconv.ParseInt(text, 10, 32)
		if err != nil {
			return nil, undef("integer %s out of range of int", text)
		}
		return &Value{I: n}, nil
	default:
		n, err := strconv.ParseInt(text, 10, 64)
		if err != nil {
			return nil, undef("integer %s out of range of long", text)
		}
		return &Value{I: n}, nil
	}
}

func decFloat(text string, is32 bool) (*Value, error) {
	bs := 64
	if is32 {
		bs = 32
	}
	f, err := strconv.ParseFloat(text, bs)
	if err != nil {
		return nil, undef("number %q out of the floating point range", text)
	}
	if is32 {
		return &Value{Fb: uint64(math.Float32bits(float32(f)))}, nil
	}
	return &Value{Fb: math.Float64bits(f)}, nil
}

// NaNBits is the value the reference gives to the string "NaN": the document names no payload, so every comparison
// involving a NaN must go through ValueEqual (all NaNs of one width are one value there).
func nanBits(is32 bool) uint64 {
	if is32 {
		return 0x7fc00000
	}
	return 0x7ff8000000000000
}

// checkObject validates the member list of an object against the allowed keys: an unknown key and a duplicate key are
// read errors ("Если при чтении попадается неизвестное поле, происходит ошибка чтения"; duplicates: property C06).
func checkObject(j *JV, what string, allowed func(string) bool) error {
	seen := map[string]bool{}
	for _, m := range j.O {
		if !allowed(m.Key) {
			return reject("unknown key %q in %s", m.Key, what)
		}
		if seen[m.Key] {
			return reject("duplicate key %q in %s", m.Key, what)
		}
		seen[m.Key] = true
	}
	return nil
}

// JSONDec reads j as a value of t.
func JSONDec(t *Type, j *JV, env *Env, m JSONMode) (*Value, error) {
	if j.K == JNull {
		return nil, reject("null is not supported when reading")
	}
	switch t.Kind {
	case KInt, KLong, KNat:
		switch j.K {
		case JNum:
			return decInt(j.Num, t)
		case JStr:
			if m.Strict {
				return nil, reject("strict: number written as a string")
			}
			return decInt(j.S, t)
		}
		return nil, undef("neither number nor string for an integer")
	case KDouble, KFloat:
		is32 := t.Kind == KFloat
		switch j.K {
		case JNum:
			return decFloat(j.Num, is32)
		case JStr:
			switch j.S {
			case "NaN":
				return &Value{Fb: nanBits(is32)}, nil
			case "+Inf":
				return &Value{Fb: floatBits(math.Inf(1), is32)}, nil
			case "-Inf":
				return &Value{Fb: floatBits(math.Inf(-1), is32)}, nil
			}
			if m.Strict {
				return nil, reject("strict: number written as a string")
			}
			// "JSON String, содержащий десятичное представление числа": digits with an optional fraction
			if !decimalRe(j.S) {
				return nil, undef("string %q is not a plain decimal representation", j.S)
			}
			return decFloat(j.S, is32)
		}
		return nil, undef("neither number nor string for a float")
	case KString:
		switch j.K {
		case JStr:
			return &Value{S: j.S}, nil
		case JObj:
			if err := checkObject(j, "a base64 string object", func(k string) bool { return k == "base64" }); err != nil {
				return nil, err
			}
			b := j.Get("base64")
			if b == nil {
				return nil, undef("string object without \"base64\"")
			}
			if b.K == JNull {
				return nil, reject("null is not supported when reading")
			}
			if b.K != JStr {
				return nil, undef("\"base64\" is not a string")
			}
			raw, err := base64.StdEncoding.DecodeString(b.S)
			if err != nil {
				return nil, undef("malformed base64")
			}
			if m.Strict && utf8.Valid(raw) {
				return nil, reject("strict: valid UTF-8 written as base64")
			}
			return &Value{S: string(raw)}, nil
		}
		return nil, undef("neither string nor object for a string")
	case KBool:
		if j.K == JBool {
			return &Value{B: j.B}, nil
		}
		return nil, undef("not a JSON bool for Bool")
	case KTrue:
		if j.K == JObj && len(j.O) == 0 {
			return &Value{}, nil
		}
		if j.K == JObj {
			return nil, reject("unknown key %q in a True object", j.O[0].Key)
		}
		return nil, undef("True written as something other than {}")
	case KVector, KTuple:
		if j.K != JArr {
			return nil, undef("not a JSON array for an array")
		}
		if t.Kind == KTuple {
			if n := env.NatVal(t.Size); uint64(len(j.A)) != uint64(n) {
				return nil, reject("array length %d differs from the size parameter %d", len(j.A), n)
			}
		}
		v := &Value{}
		for _, e := range j.A {
			ev, err := JSONDec(t.Elem, e, env, m)
			if err != nil {
				return nil, err
			}
			v.Elems = append(v.Elems, ev)
		}
		return v, nil
	case KMaybe:
		if j.K != JObj {
			return nil, undef("not a JSON object for Maybe")
		}
		if err := checkObject(j, "a Maybe object", func(k string) bool { return k == "ok" || k == "value" }); err != nil {
			return nil, err
		}
		okJ, valJ := j.Get("ok"), j.Get("value")
		if okJ != nil && okJ.K == JNull {
			return nil, reject("null is not supported when reading")
		}
		if okJ != nil && okJ.K != JBool {
			return nil, undef("\"ok\" is not a JSON bool")
		}
		if m.Strict {
			if okJ != nil && !okJ.B {
				return nil, reject("strict: \"ok\":false is never written")
			}
			if okJ == nil && valJ != nil {
				return nil, reject("strict: a set Maybe is written with \"ok\":true")
			}
			if len(j.O) == 2 && j.O[0].Key != "ok" {
				return nil, reject("strict: \"ok\" is written before \"value\"")
			}
		}
		// the primer's table of all combinations
		switch {
		case okJ != nil && okJ.B && valJ != nil, okJ == nil && valJ != nil:
			ev, err := JSONDec(t.Elem, valJ, env, m)
			if err != nil {
				return nil, err
			}
			return &Value{B: true, Elems: []*Value{ev}}, nil
		case okJ != nil && okJ.B && valJ == nil:
			ev, ok := JSONEmptyValue(t.Elem, env)
			if !ok {
				return nil, undef("omitted value of a sized array type")
			}
			return &Value{B: true, Elems: []*Value{ev}}, nil
		case okJ != nil && !okJ.B && valJ != nil:
			if valJ.K == JNull {
				return nil, reject("null is not supported when reading")
			}
			return nil, reject("Maybe with \"ok\":false and a value")
		default:
			return &Value{}, nil
		}
	case KDict, KDictAny:
		if !IsMapDict(t) {
			return nil, undef("a pair array whose key is neither string nor number")
		}
		kt := dictKeyType(t)
		v := &Value{}
		pairArray := false
		switch j.K {
		case JObj:
			for _, mem := range j.O {
				var kv *Value
				if kt.Kind == KString {
					kv = &Value{S: mem.Key}
				} else {
					var err error
					if kv, err = decInt(mem.Key, kt); err != nil {
						return nil, err
					}
				}
				ev, err := JSONDec(t.Elem, mem.V, env, m)
				if err != nil {
					return nil, err
				}
				v.Elems = append(v.Elems, &Value{Fields: []*Value{kv, ev}})
			}
		case JArr:
			pairArray = true
			for _, e := range j.A {
				if e.K == JNull {
					return nil, reject("null is not supported when reading")
				}
				if e.K != JObj {
					return nil, undef("dictionary pair is not an object")
				}
				if err := checkObject(e, "a dictionary pair", func(k string) bool { return k == "key" || k == "value" }); err != nil {
					return nil, err
				}
				var kv, ev *Value
				var err error
				if kj := e.Get("key"); kj != nil {
					if kv, err = JSONDec(kt, kj, env, m); err != nil {
						return nil, err
					}
				} else {
					kv, _ = JSONEmptyValue(kt, env)
				}
				if vj := e.Get("value"); vj != nil {
					if ev, err = JSONDec(t.Elem, vj, env, m); err != nil {
						return nil, err
					}
				} else {
					var ok bool
					if ev, ok = JSONEmptyValue(t.Elem, env); !ok {
						return nil, undef("omitted value of a sized array type")
					}
				}
				v.Elems = append(v.Elems, &Value{Fields: []*Value{kv, ev}})
			}
		default:
			return nil, undef("neither object nor array for a dictionary")
		}
		if m.Strict && pairArray {
			// a writer may only resort to the pair array when the object form cannot carry a key (not valid UTF-8)
			binary := false
			for _, e := range v.Elems {
				if kt.Kind == KString && !utf8.ValidString(e.Fields[0].S) {
					binary = true
				}
			}
			if !binary {
				return nil, reject("strict: a dictionary is written as an object")
			}
		}
		for i := range v.Elems {
			for k := i + 1; k < len(v.Elems); k++ {
				if keyEq(kt, v.Elems[i].Fields[0], v.Elems[k].Fields[0]) {
					if m.Strict {
						return nil, reject("strict: duplicate dictionary key")
					}
					return nil, undef("duplicate dictionary key on reading")
				}
			}
		}
		if m.Strict && !sort.SliceIsSorted(v.Elems, func(a, b int) bool { return keyLess(kt, v.Elems[a].Fields[0], v.Elems[b].Fields[0]) }) {
			return nil, reject("strict: dictionary is written sorted by key")
		}
		ch := false
		return Normalize(t, v, &ch), nil
	case KStruct:
		if IsTypedef(t.Def) {
			in, err := JSONDec(t.Def.Fields[0].T, j, &Env{Outer: env.args(t)}, m)
			if err != nil {
				return nil, err
			}
			return &Value{Fields: []*Value{in}}, nil
		}
		fs, err := JSONDecFields(t.Def, env.args(t), j, m)
		if err != nil {
			return nil, err
		}
		return &Value{Fields: fs}, nil
	case KUnion:
		find := func(name string) (int, error) {
			for vi, vd := range t.U.Variants {
				if vd.Name == name {
					return vi, nil
				}
			}
			return 0, undef("constructor name %q (only the full constructor names are defined)", name)
		}
		switch j.K {
		case JStr:
			if m.Strict && !IsEnum(t.U) {
				return nil, reject("strict: a union is written as an object")
			}
			vi, err := find(j.S)
			if err != nil {
				return nil, err
			}
			fs, err := JSONDecFields(t.U.Variants[vi], nil, nil, m)
			if err != nil {
				return nil, err
			}
			return &Value{Variant: vi, Fields: fs}, nil
		case JObj:
			if m.Strict && IsEnum(t.U) {
				return nil, reject("strict: an enum is written as a string")
			}
			if err := checkObject(j, "a union object", func(k string) bool { return k == "type" || k == "value" }); err != nil {
				return nil, err
			}
			tj, vj := j.Get("type"), j.Get("value")
			if tj == nil {
				return nil, undef("union object without \"type\"")
			}
			if tj.K == JNull {
				return nil, reject("null is not supported when reading")
			}
			if tj.K != JStr {
				return nil, undef("\"type\" is not a string")
			}
			if m.Strict && j.O[0].Key != "type" {
				return nil, reject("strict: \"type\" is written before \"value\"")
			}
			vi, err := find(tj.S)
			if err != nil {
				return nil, err
			}
			if vj != nil && vj.K == JNull {
				return nil, reject("null is not supported when reading")
			}
			fs, err := JSONDecFields(t.U.Variants[vi], nil, vj, m)
			if err != nil {
				return nil, err
			}
			return &Value{Variant: vi, Fields: fs}, nil
		}
		return nil, undef("neither string nor object for a union")
	}
	return nil, fmt.Errorf("JSONDec: bad kind")
}

func floatBits(f float64, is32 bool) uint64 {
	if is32 {
		return uint64(math.Float32bits(float32(f)))
	}
	return math.Float64bits(f)
}

func decimalRe(s string) bool { // -?digits(.digits)?
	if strings.HasPrefix(s, "-") {
		s = s[1:]
	}
	parts := strings.SplitN(s, ".", 2)
	for _, p := range parts {
		if p == "" {
			return false
		}
		for _, c := range []byte(p) {
			if c < '0' || c > '9' {
				return false
			}
		}
	}
	return true
}

// JSONDecFields reads the fields of constructor d from object j (nil = the object is absent: every field empty).
// Field masks (primer, table "Бит маски полей / Поле указано явно"): a field given explicitly under a mask inside the
// object sets the bit (and, when the mask is itself a masked field, that field's bit, recursively); under an outer
// mask whose bit is 0 it is a read error; a field not given whose bit is 1 gets the empty value. A true-typed field
// under a local mask may be given as true instead of the bit; given as false while the bit is 1 it is an error.
func JSONDecFields(d *StructDef, outer []uint32, j *JV, m JSONMode) ([]*Value, error) {
	if j == nil {
		j = JObject()
	}
	if j.K == JNull {
		return nil, reject("null is not supported when reading")
	}
	if j.K != JObj {
		return nil, undef("not a JSON object for constructor %s", d.Name)
	}
	idx := map[string]int{}
	for i := range d.Fields {
		idx[d.Fields[i].Name] = i
	}
	if err := checkObject(j, "constructor "+d.Name, func(k string) bool { _, ok := idx[k]; return ok }); err != nil {
		return nil, err
	}
	n := len(d.Fields)
	given := make([]*JV, n)
	for _, mem := range j.O {
		given[idx[mem.Key]] = mem.V
	}
	// pass 1: explicit values of the nat fields; which fields assert their presence
	nat := make([]uint32, n)
	asserts := make([]bool, n) // the field is "given explicitly" in the sense of the mask table
	for i := range d.Fields {
		f := &d.Fields[i]
		g := given[i]
		if g == nil {
			continue
		}
		if g.K == JNull {
			return nil, reject("null is not supported when reading")
		}
		switch {
		case f.T.Kind == KTrue && !f.T.Boxed:
			if f.Mask == nil {
				return nil, undef("an unmasked true field given explicitly")
			}
			if g.K != JBool {
				return nil, undef("a true field given as something other than a JSON bool")
			}
			asserts[i] = g.B
		case f.T.Kind == KNat:
			v, err := JSONDec(f.T, g, &Env{}, m)
			if err != nil {
				return nil, err
			}
			nat[i] = v.N
			asserts[i] = true
		default:
			asserts[i] = true
		}
	}
	explicitNat := append([]uint32(nil), nat...)
	// pass 2: propagate presence into local masks, innermost first (a mask is always an earlier field)
	for i := n - 1; i >= 0; i-- {
		f := &d.Fields[i]
		if asserts[i] && f.Mask != nil && f.Mask.Src.Kind == NField {
			mi := f.Mask.Src.Idx
			nat[mi] |= 1 << uint(f.Mask.Bit)
			asserts[mi] = true
		}
	}
	if m.Strict {
		for i := range nat {
			if nat[i] != explicitNat[i] {
				return nil, reject("strict: field mask %s is written with every bit of a written field set", d.Fields[i].Name)
			}
		}
	}
	// pass 3: values in declaration order
	fs := make([]*Value, 0, n)
	for i := range d.Fields {
		f := &d.Fields[i]
		env := &Env{Outer: outer, Fields: fs}
		g := given[i]
		bit := true
		if f.Mask != nil {
			if f.Mask.Src.Kind == NField {
				bit = nat[f.Mask.Src.Idx]>>uint(f.Mask.Bit)&1 == 1
				// the mask field may itself be absent (its own bit 0): then its value counts as 0; propagation
				// guarantees this cannot happen for a field that asserts presence
				if fs[f.Mask.Src.Idx] == nil {
					bit = false
				}
			} else {
				bit = env.Present(f)
			}
		}
		if f.T.Kind == KTrue && !f.T.Boxed {
			if f.Mask != nil && g != nil {
				switch {
				case f.Mask.Src.Kind != NField && !bit && g.B:
					if !m.NoTL2 {
						return nil, undef("field %s given explicitly under an outer mask whose bit is 0, type generated with TL2", f.Name)
					}
					return nil, reject("field %s given explicitly under an outer mask whose bit is 0", f.Name)
				case f.Mask.Src.Kind == NField && !bit && g.B:
					return nil, undef("true field %s given under a local mask field that is itself absent", f.Name)
				case f.Mask.Src.Kind != NField && !g.B:
					return nil, undef("a true field under an outer mask given as false")
				case !g.B && bit:
					if m.NoTL2 {
						return nil, reject("true field %s given as false while its mask bit is 1", f.Name)
					}
					return nil, undef("true field given as false while its mask bit is 1, type generated with TL2")
				case m.Strict && !g.B:
					return nil, reject("strict: a true field is never written as false")
				}
			}
			if m.Strict && f.Mask != nil && f.Mask.Src.Kind == NField && bit && g == nil {
				return nil, reject("strict: true field %s is written as true when its bit is set", f.Name)
			}
			if bit {
				fs = append(fs, &Value{})
			} else {
				fs = append(fs, nil)
			}
			continue
		}
		if !bit {
			if g != nil {
				if f.Mask.Src.Kind == NField {
					// a local bit is set by the field's presence; only reachable when the mask field itself cannot exist
					return nil, undef("field %s given under a local mask field that is itself absent", f.Name)
				}
				if !m.NoTL2 {
					// a TL2-enabled object keeps its own presence bits; property C06 does not list this rejection
					// and scopes the sibling rule (true given as false) to types without TL2
					return nil, undef("field %s given explicitly under an outer mask whose bit is 0, type generated with TL2", f.Name)
				}
				return nil, reject("field %s given explicitly under an outer mask whose bit is 0", f.Name)
			}
			fs = append(fs, nil)
			continue
		}
		if f.T.Kind == KNat {
			if m.Strict && f.Mask != nil && g == nil {
				return nil, reject("strict: masked field %s is written when its bit is set", f.Name)
			}
			fs = append(fs, &Value{N: nat[i]})
			continue
		}
		if g == nil {
			// A user-declared constructor without fields: the primer's rule for True ("чаще всего опускается") is
			// worded for the type True only, its rule for masked fields ("строго если установлен бит маски") for all
			// fields; the generator treats every field-less constructor as True. Not settled: both spellings admitted.
			fieldless := f.T.Kind == KStruct && len(f.T.Def.Fields) == 0
			if m.Strict && f.Mask != nil && !fieldless {
				return nil, reject("strict: masked field %s is written when its bit is set", f.Name)
			}
			ev, ok := JSONEmptyValue(f.T, env)
			if !ok {
				return nil, undef("omitted field %s of a sized array type", f.Name)
			}
			fs = append(fs, ev)
			continue
		}
		v, err := JSONDec(f.T, g, env, m)
		if err != nil {
			return nil, err
		}
		fs = append(fs, v)
	}
	return fs, nil
}

// JSONDecTop reads a top-level value.
func JSONDecTop(d *StructDef, j *JV, m JSONMode) (*Value, error) {
	fs, err := JSONDecFields(d, nil, j, m)
	if err != nil {
		return nil, err
	}
	return &Value{Fields: fs}, nil
}

// ---------------------------------------------------------------------------------------------------------------
// value equality (all NaNs of one width are one value: the JSON form "NaN" carries no payload)

func ValueEqual(t *Type, a, b *Value) bool {
	if a == nil || b == nil {
		return a == b
	}
	switch t.Kind {
	case KInt, KLong:
		return a.I == b.I
	case KNat:
		return a.N == b.N
	case KDouble, KFloat:
		if a.Fb == b.Fb {
			return true
		}
		is32 := t.Kind == KFloat
		return math.IsNaN(floatOf(a.Fb, is32)) && math.IsNaN(floatOf(b.Fb, is32))
	case KString:
		return a.S == b.S
	case KBool:
		return a.B == b.B
	case KTrue:
		return true
	case KVector, KTuple:
		if len(a.Elems) != len(b.Elems) {
			return false
		}
		for i := range a.Elems {
			if !ValueEqual(t.Elem, a.Elems[i], b.Elems[i]) {
				return false
			}
		}
		return true
	case KMaybe:
		if a.B != b.B {
			return false
		}
		return !a.B || ValueEqual(t.Elem, a.Elems[0], b.Elems[0])
	case KDict, KDictAny:
		if len(a.Elems) != len(b.Elems) {
			return false
		}
		kt := dictKeyType(t)
		for i := range a.Elems {
			if !ValueEqual(kt, a.Elems[i].Fields[0], b.Elems[i].Fields[0]) || !ValueEqual(t.Elem, a.Elems[i].Fields[1], b.Elems[i].Fields[1]) {
				return false
			}
		}
		return true
	case KStruct:
		return FieldsEqual(t.Def, a.Fields, b.Fields)
	case KUnion:
		return a.Variant == b.Variant && FieldsEqual(t.U.Variants[a.Variant], a.Fields, b.Fields)
	}
	return false
}

func FieldsEqual(d *StructDef, a, b []*Value) bool {
	if len(a) != len(b) {
		return false
	}
	for i := range d.Fields {
		if !ValueEqual(d.Fields[i].T, a[i], b[i]) {
			return false
		}
	}
	return true
}
