package uni

import "fmt"

// Function universe (C07, C18): the type universe of Universe(level) plus functions whose result is each depth-1 type
// expression in the boxed form TL1 requires for results ("TL1 function result cannot be bare"), including results sized
// or masked by request nat fields. Universe() itself is unchanged; the functions are appended to a fresh copy and get
// tags from a disjoint range.
//
// Result types are ordinary *Type values whose nat references (NField) point at the *request* fields of the function:
// the result of request value q is encoded/decoded/enumerated in Env{Fields: q.Fields}.

// FuncUniverse returns Universe(level) extended with the function declarations (also appended to Tops), and the list of
// functions.
func FuncUniverse(level int) (*Schema, *Helpers, []*StructDef) {
	s, h := Universe(level)
	tag := uint32(0x30000001)
	n := 0
	var funcs []*StructDef
	fn := func(annot string, result *Type, fields ...Field) *StructDef {
		n++
		d := &StructDef{Name: fmt.Sprintf("u.f%d", n), Tag: tag, Fields: fields, IsFunc: true, Result: result, Annot: []string{annot}}
		tag++
		funcs = append(funcs, d)
		return d
	}
	bx := func(t *Type) *Type { c := *t; c.Boxed = true; return &c }
	ang := func(t *Type) *Type { c := *t; c.Angle = true; return &c }

	// --- results that do not depend on the request (request = x:int) -----------------------------------------
	noDep := []*Type{
		TIntB, bx(TLong), bx(TDouble), bx(TFloat), TStrB, TBool, bx(TTrue),
		RefBoxed(h.St), RefBoxed(h.Empty), RefBoxed(h.Td), URef(h.En), URef(h.Un),
		RefBoxed(h.Rec), RefBoxed(h.RecM), RefBoxed(h.RecMask), RefBoxed(h.Big),
		RefBoxed(h.Ar, Const(2)), RefBoxed(h.Om, Const(3)), RefBoxed(h.Thru, Const(1), Const(2)),
	}
	elems := []*Type{TInt, TLong, TString, TBool, TDouble, Ref(h.St), RefBoxed(h.St), URef(h.En), URef(h.Un), Ref(h.Om, Const(1))}
	for _, e := range elems {
		noDep = append(noDep,
			ang(VecBoxed(e)),
			ang(bx(Tup(e, Const(3)))),
			ang(Maybe(e)),
			ang(bx(Dict(e))),
		)
	}
	noDep = append(noDep,
		ang(bx(Tup(TInt, Const(0)))),
		VecBoxed(TInt), // (Vector int): the parenthesised spelling
		Maybe(Ref(h.St)),
		ang(bx(DictAny(TInt, TString))), ang(bx(DictAny(TString, TInt))), ang(bx(DictAny(TLong, Ref(h.St)))),
		ang(VecBoxed(TTrue)), ang(Maybe(TTrue)), ang(VecBoxed(Ref(h.Empty))),
	)
	annots := []string{"read", "write", "any", "readwrite", "kphp", "internal"}
	for i, t := range noDep {
		a := "read"
		if i < len(annots) {
			a = annots[i]
		}
		fn(a, t, F("x", TInt))
	}
	// empty request; several request fields of several kinds; masked request fields
	fn("read", TIntB)
	fn("read", RefBoxed(h.St), F("a", TString), F("b", Ref(h.St)), F("c", Vec(TInt)))
	fn("read", ang(VecBoxed(TString)), F("m", TNat), FM("x", TInt, FieldN(0), 0), FM("y", TString, FieldN(0), 1))

	// --- results shaped by request nat fields ---------------------------------------------------------------
	// size
	fn("read", ang(bx(Tup(TInt, FieldN(0)))), F("n", TNat))
	fn("read", bx(Tup(TString, FieldN(0))), F("n", TNat)) // (Tuple string n)
	fn("read", RefBoxed(h.Ar, FieldN(0)), F("n", TNat))
	fn("read", ang(bx(Tup(Ref(h.St), FieldN(0)))), F("n", TNat))
	fn("read", ang(bx(Tup(URef(h.Un), FieldN(0)))), F("n", TNat))
	fn("read", ang(bx(Tup(TBool, FieldN(0)))), F("n", TNat))
	// mask
	fn("read", RefBoxed(h.Om, FieldN(0)), F("m", TNat))
	// the shaping field is not the first request field / not the first nat field (catches "wrong request field")
	fn("read", ang(bx(Tup(TInt, FieldN(1)))), F("a", TInt), F("n", TNat), F("b", TString))
	fn("read", ang(bx(Tup(TInt, FieldN(1)))), F("k", TNat), F("n", TNat))
	fn("read", ang(bx(Tup(TInt, FieldN(0)))), F("n", TNat), F("k", TNat))
	fn("read", RefBoxed(h.Om, FieldN(1)), F("n", TNat), F("m", TNat))
	fn("read", RefBoxed(h.Ar, FieldN(2)), F("a", TNat), F("b", TNat), F("n", TNat))
	// two shaping fields with different roles, in both orders
	fn("read", RefBoxed(h.Thru, FieldN(0), FieldN(1)), F("n", TNat), F("m", TNat))
	fn("read", RefBoxed(h.Thru, FieldN(1), FieldN(0)), F("m", TNat), F("n", TNat))
	fn("read", RefBoxed(h.Thru, Const(2), FieldN(0)), F("m", TNat))
	// shaped element types inside containers
	arN := &Type{Kind: KStruct, Def: h.Ar, Args: []Nat{FieldN(0)}, Angle: true}
	omN := &Type{Kind: KStruct, Def: h.Om, Args: []Nat{FieldN(0)}, Angle: true}
	fn("read", ang(Maybe(arN)), F("n", TNat))
	fn("read", ang(Maybe(omN)), F("m", TNat))
	fn("read", ang(bx(Tup(omN, Const(3)))), F("m", TNat))
	fn("read", ang(bx(Dict(arN))), F("n", TNat))
	// the same field sizes the result and an array of the request
	fn("read", ang(bx(Tup(TInt, FieldN(0)))), F("n", TNat), F("q", Tup(TInt, FieldN(0))))
	// the shaping field is itself under a request field mask (absent = 0)
	fn("read", ang(bx(Tup(TInt, FieldN(1)))), F("m", TNat), FM("n", TNat, FieldN(0), 0))
	fn("read", RefBoxed(h.Om, FieldN(1)), F("f", TNat), FM("m", TNat, FieldN(0), 3))

	if level >= 2 {
		// vectors whose element type can be encoded in 0 bytes for some request (n = 0, m = 0): the generated reader rejects
		// such valid encodings (CheckLengthSanity demands 4 bytes per element; known finding of C01, kept at level 2 like
		// the corresponding types of Universe(2))
		fn("read", ang(VecBoxed(arN)), F("n", TNat))
		fn("read", ang(VecBoxed(omN)), F("m", TNat))
		fn("read", VecBoxed(Ref(h.Ar, FieldN(0))), F("n", TNat)) // Vector (u.ar n)
		// depth-2 results
		fn("read", ang(VecBoxed(ang(Vec(TInt)))), F("x", TInt))
		fn("read", ang(Maybe(ang(Vec(TString)))), F("x", TInt))
		fn("read", ang(VecBoxed(ang(Maybe(TInt)))), F("x", TInt))
		fn("read", ang(bx(Tup(ang(Vec(Ref(h.St))), FieldN(0)))), F("n", TNat))
		fn("read", ang(VecBoxed(ang(Tup(TInt, FieldN(0))))), F("n", TNat))
		fn("read", ang(bx(Dict(ang(Maybe(URef(h.Un)))))), F("x", TInt))
	}
	// --- appended later (explicit names and tags, so that the numbered functions above keep their names at every level):
	// tuples of a PARAMETRISED element sized by a DIFFERENT request nat field (Tuple (u.om m) n): the unwrapped wrapper
	// types must permute their nat arguments; both request orders; under Maybe; inside result structs, one and two levels down
	xtag := uint32(0x30001001)
	fx := func(name string, result *Type, fields ...Field) {
		d := &StructDef{Name: "u." + name, Tag: xtag, Fields: fields, IsFunc: true, Result: result, Annot: []string{"read"}}
		xtag++
		funcs = append(funcs, d)
	}
	tom := &StructDef{Name: "u.tom", TypeName: "u.Tom", Tag: 0x30002001, NatParams: []string{"n", "m"},
		Fields: []Field{F("a", Tup(Ref(h.Om, OuterN(1)), OuterN(0)))}}
	grid := &StructDef{Name: "u.grid", TypeName: "u.Grid", Tag: 0x30002002, NatParams: []string{"w", "h", "m"},
		Fields: []Field{F("cells", Tup(Tup(RefBoxed(h.Om, OuterN(2)), OuterN(0)), OuterN(1)))}}
	// recursion through map-backed dictionaries (random filling must stay bounded by the depth limit there too)
	dir := &StructDef{Name: "u.dir", TypeName: "u.Dir", Tag: 0x30002003, Fields: []Field{F("size", TInt)}}
	dir.Fields = append(dir.Fields, F("entries", Dict(Ref(dir))))
	dirn := &StructDef{Name: "u.dirn", TypeName: "u.Dirn", Tag: 0x30002004, Fields: []Field{F("v", TInt)}}
	dirn.Fields = append(dirn.Fields, F("sub", DictAny(TInt, Ref(dirn))), F("tail", Vec(Ref(dirn))))
	s.Structs = append(s.Structs, tom, grid, dir, dirn)
	s.Tops = append(s.Tops, dir, dirn)
	omTup := func(nIdx, mIdx int) *Type { return bx(Tup(Ref(h.Om, FieldN(mIdx)), FieldN(nIdx))) } // Tuple (u.om m) n
	fx("fx1", omTup(0, 1), F("n", TNat), F("m", TNat))
	fx("fx2", omTup(1, 0), F("m", TNat), F("n", TNat))
	fx("fx3", Maybe(omTup(0, 1)), F("n", TNat), F("m", TNat))
	fx("fx4", Maybe(omTup(1, 0)), F("m", TNat), F("n", TNat))
	fx("fx5", RefBoxed(tom, FieldN(0), FieldN(1)), F("n", TNat), F("m", TNat))
	fx("fx6", RefBoxed(tom, FieldN(1), FieldN(0)), F("m", TNat), F("n", TNat))
	fx("fx7", RefBoxed(grid, FieldN(0), FieldN(1), FieldN(2)), F("w", TNat), F("h", TNat), F("m", TNat))
	fx("fx8", RefBoxed(grid, FieldN(2), FieldN(1), FieldN(0)), F("m", TNat), F("h", TNat), F("w", TNat))
	fx("fx9", bx(Tup(Ref(h.Ar, FieldN(1)), FieldN(0))), F("n", TNat), F("k", TNat)) // Tuple (u.ar k) n: two sizes
	s.Structs = append(s.Structs, funcs...)
	s.Tops = append(s.Tops, funcs...)
	return s, h, funcs
}

// ResultNatUse reports how request field idx of function f shapes f's result.
func resultNatUse(f *StructDef, idx int) natUse { return typeNatUse(f.Result, NField, idx, 0) }

// FuncNatDomain is the ordered value domain of request nat field idx of function f: its uses inside the request and
// inside the result type are merged (sizes 0..2, every used mask bit, all used bits, one unused bit).
func FuncNatDomain(f *StructDef, idx int) (dom []uint32, shapesResult bool) {
	u := defNatUse(f, NField, idx, 0)
	ru := resultNatUse(f, idx)
	shapesResult = ru.size || len(ru.bits) > 0
	u.merge(ru)
	// natDomain only looks at a definition's fields; evaluate it on a definition whose last field is the result
	tmp := &StructDef{Name: f.Name, Fields: append(append([]Field(nil), f.Fields...), Field{Name: "result", T: f.Result})}
	return natDomain(tmp, idx), shapesResult
}

// EnumRequest enumerates request values of function f: every nat field that shapes the result takes every value of its
// domain (at no deviation cost), everything else stays within k deviations of the default.
func (dm *Domains) EnumRequest(f *StructDef, k int) []VC {
	var out []VC
	var rec func(i int, cur []*Value, k, cost int)
	rec = func(i int, cur []*Value, k, cost int) {
		if i == len(f.Fields) {
			out = append(out, VC{&Value{Fields: append([]*Value(nil), cur...)}, cost})
			return
		}
		fl := &f.Fields[i]
		env := &Env{Fields: cur}
		if !env.Present(fl) {
			rec(i+1, append(cur[:len(cur):len(cur)], nil), k, cost)
			return
		}
		if fl.T.Kind == KNat {
			dom, shapes := FuncNatDomain(f, i)
			for j, nv := range dom {
				c := 0
				if j > 0 && !shapes {
					c = 1
				}
				if c > k {
					continue
				}
				rec(i+1, append(cur[:len(cur):len(cur)], &Value{N: nv}), k-c, cost+c)
			}
			return
		}
		for _, e := range dm.enum(fl.T, env, k, 1) {
			rec(i+1, append(cur[:len(cur):len(cur)], e.V), k-e.C, cost+e.C)
		}
	}
	rec(0, nil, k, 0)
	return out
}

// EnumResult enumerates the result values of f for request value q within k deviations.
func (dm *Domains) EnumResult(f *StructDef, q *Value, k int) []VC {
	return dm.enum(f.Result, &Env{Fields: q.Fields}, k, 0)
}

// EncResult encodes result value v of f for request q (results are boxed: the type carries Boxed).
func EncResult(f *StructDef, q *Value, v *Value) ([]byte, error) {
	return EncTL1(nil, f.Result, v, &Env{Fields: q.Fields})
}

// DecResult strictly decodes a result of f for request q from the front of r.
func DecResult(r []byte, f *StructDef, q *Value) (*Value, []byte, error) {
	return DecTL1(r, f.Result, &Env{Fields: q.Fields})
}

// FuncDeclText prints a function declaration. The parser rejects round brackets around the whole result type ("for
// historic reasons, round brackets are not allowed here"), so one outer pair printed by TypeText is removed:
// `=> u.Ar n`, `=> Tuple string n`, `=> Vector (u.ar n)`.
func FuncDeclText(d *StructDef) string {
	s := DeclText(d)
	if !d.IsFunc {
		return s
	}
	const sep = " => "
	for i := 0; i+len(sep) <= len(s); i++ {
		if s[i:i+len(sep)] == sep {
			res := s[i+len(sep) : len(s)-1] // without the final ';'
			if len(res) >= 2 && res[0] == '(' && res[len(res)-1] == ')' {
				res = res[1 : len(res)-1]
			}
			return s[:i+len(sep)] + res + ";"
		}
	}
	return s
}

// FuncText prints the schema like Schema.Text but with FuncDeclText for the functions.
func FuncText(s *Schema) string {
	out := Prelude
	fn := false
	for _, d := range s.Structs {
		if d.IsFunc && !fn {
			out += "\n---functions---\n"
			fn = true
		}
		out += FuncDeclText(d) + "\n"
	}
	return out
}

// ResultMaskUse: request nat field ReqField of a function masks, with bit Bit, field Field of struct Def somewhere inside
// the function's result (the generator emits Set<Def><Field>(bool) on the function for it).
type ResultMaskUse struct {
	ReqField int
	Bit      int
	Def      *StructDef
	Field    int
}

// ResultMaskUses lists every field inside f's result whose presence is controlled by a request nat field.
func ResultMaskUses(f *StructDef) []ResultMaskUse {
	var out []ResultMaskUse
	seen := map[string]bool{}
	type resolver func(n Nat) (int, bool)
	var walk func(t *Type, res resolver, depth int)
	walk = func(t *Type, res resolver, depth int) {
		if t == nil || depth > 6 {
			return
		}
		switch t.Kind {
		case KVector, KTuple, KMaybe, KDict:
			walk(t.Elem, res, depth)
		case KDictAny:
			walk(t.Key, res, depth)
			walk(t.Elem, res, depth)
		case KStruct:
			inner := func(n Nat) (int, bool) {
				if n.Kind == NOuter && n.Idx < len(t.Args) {
					return res(t.Args[n.Idx])
				}
				return 0, false
			}
			for fi := range t.Def.Fields {
				fl := &t.Def.Fields[fi]
				if fl.Mask != nil {
					if rf, ok := inner(fl.Mask.Src); ok {
						k := fmt.Sprint(rf, fl.Mask.Bit, t.Def.Name, fi)
						if !seen[k] {
							seen[k] = true
							out = append(out, ResultMaskUse{ReqField: rf, Bit: fl.Mask.Bit, Def: t.Def, Field: fi})
						}
					}
				}
				walk(fl.T, inner, depth+1)
			}
		}
	}
	walk(f.Result, func(n Nat) (int, bool) {
		if n.Kind == NField {
			return n.Idx, true
		}
		return 0, false
	}, 0)
	return out
}
