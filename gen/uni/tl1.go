package uni

import (
	"encoding/binary"
	"errors"
	"fmt"
	"sort"
)

// TL1 reference codec, written from docs/tldoc.ru.md and the TL primer: little-endian 4/8-byte primitives; strings
// with a 1-byte (<=253), 0xFE+3-byte (254..2^24-1) or 0xFF+7-byte length and zero padding to a multiple of 4; boxed
// values start with the 4-byte constructor tag; field masks are ordinary # fields and a masked field is present iff
// its bit is set; n*[T] is n elements without a count; vector is a count followed by the elements; Bool is one of two
// tags; true is empty.

func le32(w []byte, v uint32) []byte { return binary.LittleEndian.AppendUint32(w, v) }
func le64(w []byte, v uint64) []byte { return binary.LittleEndian.AppendUint64(w, v) }

// EncString appends a TL1 string.
func EncString(w []byte, s string) []byte {
	l := len(s)
	var n int
	switch {
	case l <= 253:
		w = append(w, byte(l))
		n = 1 + l
	case l < 1<<24:
		w = append(w, 254, byte(l), byte(l>>8), byte(l>>16))
		n = 4 + l
	default:
		w = append(w, 255, byte(l), byte(l>>8), byte(l>>16), byte(l>>24), byte(l>>32), byte(l>>40), byte(l>>48))
		n = 8 + l
	}
	w = append(w, s...)
	for ; n%4 != 0; n++ {
		w = append(w, 0)
	}
	return w
}

func primTag(k Kind) uint32 {
	switch k {
	case KInt:
		return TagInt
	case KLong:
		return TagLong
	case KDouble:
		return TagDouble
	case KFloat:
		return TagFloat
	case KString:
		return TagString
	}
	return 0
}

// ErrIllFormed is returned by the encoder for a value whose array length disagrees with its size parameter.
var ErrIllFormed = errors.New("array length differs from size parameter")

// EncTL1 appends the TL1 encoding of v:t in env.
func EncTL1(w []byte, t *Type, v *Value, env *Env) ([]byte, error) {
	var err error
	switch t.Kind {
	case KInt:
		if t.Boxed {
			w = le32(w, TagInt)
		}
		return le32(w, uint32(int32(v.I))), nil
	case KLong:
		if t.Boxed {
			w = le32(w, TagLong)
		}
		return le64(w, uint64(v.I)), nil
	case KDouble:
		if t.Boxed {
			w = le32(w, TagDouble)
		}
		return le64(w, v.Fb), nil
	case KFloat:
		if t.Boxed {
			w = le32(w, TagFloat)
		}
		return le32(w, uint32(v.Fb)), nil
	case KString:
		if t.Boxed {
			w = le32(w, TagString)
		}
		return EncString(w, v.S), nil
	case KNat:
		return le32(w, v.N), nil
	case KBool:
		if v.B {
			return le32(w, TagBoolTrue), nil
		}
		return le32(w, TagBoolFalse), nil
	case KTrue:
		if t.Boxed {
			w = le32(w, TagTrue)
		}
		return w, nil
	case KVector:
		if t.Boxed {
			w = le32(w, TagVector)
		}
		w = le32(w, uint32(len(v.Elems)))
		for _, e := range v.Elems {
			if w, err = EncTL1(w, t.Elem, e, env); err != nil {
				return w, err
			}
		}
		return w, nil
	case KTuple:
		if t.Boxed {
			w = le32(w, TagTuple)
		}
		if uint32(len(v.Elems)) != env.NatVal(t.Size) {
			return w, ErrIllFormed
		}
		for _, e := range v.Elems {
			if w, err = EncTL1(w, t.Elem, e, env); err != nil {
				return w, err
			}
		}
		return w, nil
	case KMaybe:
		if !v.B {
			return le32(w, TagResultFalse), nil
		}
		w = le32(w, TagResultTrue)
		return EncTL1(w, t.Elem, v.Elems[0], env)
	case KDict, KDictAny:
		if t.Boxed {
			if t.Kind == KDict {
				w = le32(w, TagDictionary)
			} else {
				w = le32(w, TagDictAny)
			}
		}
		kt := TString
		if t.Kind == KDictAny {
			kt = t.Key
		}
		w = le32(w, uint32(len(v.Elems)))
		for _, e := range v.Elems {
			if w, err = EncTL1(w, kt, e.Fields[0], env); err != nil {
				return w, err
			}
			if w, err = EncTL1(w, t.Elem, e.Fields[1], env); err != nil {
				return w, err
			}
		}
		return w, nil
	case KStruct:
		if t.Boxed {
			w = le32(w, t.Def.Tag)
		}
		return EncFields(w, t.Def, env.args(t), v.Fields)
	case KUnion:
		vd := t.U.Variants[v.Variant]
		w = le32(w, vd.Tag)
		return EncFields(w, vd, nil, v.Fields)
	}
	return w, fmt.Errorf("EncTL1: bad kind %d", t.Kind)
}

// EncFields appends the fields of a struct instance (bare).
func EncFields(w []byte, d *StructDef, outer []uint32, fs []*Value) ([]byte, error) {
	var err error
	for i := range d.Fields {
		f := &d.Fields[i]
		env := &Env{Outer: outer, Fields: fs[:i]}
		if !env.Present(f) {
			continue
		}
		if fs[i] == nil {
			return w, fmt.Errorf("EncFields: present field %s.%s has no value", d.Name, f.Name)
		}
		if w, err = EncTL1(w, f.T, fs[i], env); err != nil {
			return w, err
		}
	}
	return w, nil
}

// EncTop encodes a top-level struct value bare or boxed.
func EncTop(d *StructDef, v *Value, boxed bool) ([]byte, error) {
	var w []byte
	if boxed {
		w = le32(w, d.Tag)
	}
	return EncFields(w, d, nil, v.Fields)
}

// ---------------------------------------------------------------------------------------------------------------
// strict decoder

var (
	ErrEOF        = errors.New("unexpected end of input")
	ErrBadTag     = errors.New("unexpected constructor tag")
	ErrBadString  = errors.New("non-canonical string encoding")
	ErrUndefined  = errors.New("reference does not define this input (element count beyond its cap)")
	maxZeroSizeRe = 1 << 12
)

func rd32(r []byte) (uint32, []byte, error) {
	if len(r) < 4 {
		return 0, r, ErrEOF
	}
	return binary.LittleEndian.Uint32(r), r[4:], nil
}

func rd64(r []byte) (uint64, []byte, error) {
	if len(r) < 8 {
		return 0, r, ErrEOF
	}
	return binary.LittleEndian.Uint64(r), r[8:], nil
}

func expectTag(r []byte, tag uint32) ([]byte, error) {
	t, r, err := rd32(r)
	if err != nil {
		return r, err
	}
	if t != tag {
		return r, ErrBadTag
	}
	return r, nil
}

// DecString reads a TL1 string strictly (minimal length form, zero padding).
func DecString(r []byte) (string, []byte, error) {
	if len(r) == 0 {
		return "", r, ErrEOF
	}
	var l, hdr int
	switch r[0] {
	case 254:
		if len(r) < 4 {
			return "", r, ErrEOF
		}
		l = int(r[1]) | int(r[2])<<8 | int(r[3])<<16
		hdr = 4
		if l <= 253 {
			return "", r, ErrBadString
		}
	case 255:
		if len(r) < 8 {
			return "", r, ErrEOF
		}
		l = int(r[1]) | int(r[2])<<8 | int(r[3])<<16 | int(r[4])<<24 | int(r[5])<<32 | int(r[6])<<40 | int(r[7])<<48
		hdr = 8
		if l < 1<<24 {
			return "", r, ErrBadString
		}
	default:
		l = int(r[0])
		hdr = 1
	}
	total := hdr + l
	pad := (4 - total%4) % 4
	if len(r) < total+pad {
		return "", r, ErrEOF
	}
	for _, b := range r[total : total+pad] {
		if b != 0 {
			return "", r, ErrBadString
		}
	}
	return string(r[hdr:total]), r[total+pad:], nil
}

// MinSize is a lower bound of the encoded size of any value of t (0 for zero-size types).
func MinSize(t *Type, depth int) int {
	if depth > 4 {
		return 0
	}
	box := 0
	if t.Boxed {
		box = 4
	}
	switch t.Kind {
	case KInt, KFloat, KString:
		return 4 + box
	case KLong, KDouble:
		return 8 + box
	case KNat, KBool, KMaybe, KUnion:
		return 4
	case KTrue:
		return box
	case KVector, KDict, KDictAny:
		return 4 + box
	case KTuple:
		return box
	case KStruct:
		n := box
		for i := range t.Def.Fields {
			if t.Def.Fields[i].Mask == nil {
				n += MinSize(t.Def.Fields[i].T, depth+1)
			}
		}
		return n
	}
	return 0
}

// DecTL1 strictly decodes a value of t from the front of r.
func DecTL1(r []byte, t *Type, env *Env) (*Value, []byte, error) {
	var err error
	switch t.Kind {
	case KInt, KFloat, KLong, KDouble, KString:
		if t.Boxed {
			if r, err = expectTag(r, primTag(t.Kind)); err != nil {
				return nil, r, err
			}
		}
		switch t.Kind {
		case KInt:
			var x uint32
			x, r, err = rd32(r)
			return &Value{I: int64(int32(x))}, r, err
		case KFloat:
			var x uint32
			x, r, err = rd32(r)
			return &Value{Fb: uint64(x)}, r, err
		case KLong:
			var x uint64
			x, r, err = rd64(r)
			return &Value{I: int64(x)}, r, err
		case KDouble:
			var x uint64
			x, r, err = rd64(r)
			return &Value{Fb: x}, r, err
		default:
			var s string
			s, r, err = DecString(r)
			return &Value{S: s}, r, err
		}
	case KNat:
		var x uint32
		x, r, err = rd32(r)
		return &Value{N: x}, r, err
	case KBool:
		var x uint32
		if x, r, err = rd32(r); err != nil {
			return nil, r, err
		}
		switch x {
		case TagBoolTrue:
			return &Value{B: true}, r, nil
		case TagBoolFalse:
			return &Value{}, r, nil
		}
		return nil, r, ErrBadTag
	case KTrue:
		if t.Boxed {
			if r, err = expectTag(r, TagTrue); err != nil {
				return nil, r, err
			}
		}
		return &Value{}, r, nil
	case KVector, KDict, KDictAny:
		if t.Boxed {
			tag := uint32(TagVector)
			if t.Kind == KDict {
				tag = TagDictionary
			} else if t.Kind == KDictAny {
				tag = TagDictAny
			}
			if r, err = expectTag(r, tag); err != nil {
				return nil, r, err
			}
		}
		var n uint32
		if n, r, err = rd32(r); err != nil {
			return nil, r, err
		}
		v := &Value{}
		var ms int
		if t.Kind == KVector {
			ms = MinSize(t.Elem, 0)
		} else {
			ms = 4 + MinSize(t.Elem, 0)
		}
		if ms > 0 && uint64(n)*uint64(ms) > uint64(len(r)) {
			return nil, r, ErrEOF
		}
		if ms == 0 && int(n) > maxZeroSizeRe {
			return nil, r, ErrUndefined
		}
		for i := uint32(0); i < n; i++ {
			if t.Kind == KVector {
				var e *Value
				if e, r, err = DecTL1(r, t.Elem, env); err != nil {
					return nil, r, err
				}
				v.Elems = append(v.Elems, e)
				continue
			}
			kt := TString
			if t.Kind == KDictAny {
				kt = t.Key
			}
			var k, e *Value
			if k, r, err = DecTL1(r, kt, env); err != nil {
				return nil, r, err
			}
			if e, r, err = DecTL1(r, t.Elem, env); err != nil {
				return nil, r, err
			}
			v.Elems = append(v.Elems, &Value{Fields: []*Value{k, e}})
		}
		return v, r, nil
	case KTuple:
		if t.Boxed {
			if r, err = expectTag(r, TagTuple); err != nil {
				return nil, r, err
			}
		}
		n := env.NatVal(t.Size)
		ms := MinSize(t.Elem, 0)
		if ms > 0 && uint64(n)*uint64(ms) > uint64(len(r)) {
			return nil, r, ErrEOF
		}
		if ms == 0 && int(n) > maxZeroSizeRe {
			return nil, r, ErrUndefined
		}
		v := &Value{}
		for i := uint32(0); i < n; i++ {
			var e *Value
			if e, r, err = DecTL1(r, t.Elem, env); err != nil {
				return nil, r, err
			}
			v.Elems = append(v.Elems, e)
		}
		return v, r, nil
	case KMaybe:
		var x uint32
		if x, r, err = rd32(r); err != nil {
			return nil, r, err
		}
		switch x {
		case TagResultFalse:
			return &Value{}, r, nil
		case TagResultTrue:
			var e *Value
			if e, r, err = DecTL1(r, t.Elem, env); err != nil {
				return nil, r, err
			}
			return &Value{B: true, Elems: []*Value{e}}, r, nil
		}
		return nil, r, ErrBadTag
	case KStruct:
		if t.Boxed {
			if r, err = expectTag(r, t.Def.Tag); err != nil {
				return nil, r, err
			}
		}
		var fs []*Value
		fs, r, err = DecFields(r, t.Def, env.args(t))
		return &Value{Fields: fs}, r, err
	case KUnion:
		var x uint32
		if x, r, err = rd32(r); err != nil {
			return nil, r, err
		}
		for vi, vd := range t.U.Variants {
			if vd.Tag == x {
				var fs []*Value
				fs, r, err = DecFields(r, vd, nil)
				return &Value{Variant: vi, Fields: fs}, r, err
			}
		}
		return nil, r, ErrBadTag
	}
	return nil, r, fmt.Errorf("DecTL1: bad kind")
}

// DecFields decodes the fields of a struct instance.
func DecFields(r []byte, d *StructDef, outer []uint32) ([]*Value, []byte, error) {
	fs := make([]*Value, 0, len(d.Fields))
	var err error
	for i := range d.Fields {
		f := &d.Fields[i]
		env := &Env{Outer: outer, Fields: fs}
		if !env.Present(f) {
			fs = append(fs, nil)
			continue
		}
		var v *Value
		if v, r, err = DecTL1(r, f.T, env); err != nil {
			return nil, r, err
		}
		fs = append(fs, v)
	}
	return fs, r, nil
}

// DecTop strictly decodes a top-level struct (bare or boxed).
func DecTop(r []byte, d *StructDef, boxed bool) (*Value, []byte, error) {
	var err error
	if boxed {
		if r, err = expectTag(r, d.Tag); err != nil {
			return nil, r, err
		}
	}
	fs, r, err := DecFields(r, d, nil)
	if err != nil {
		return nil, r, err
	}
	return &Value{Fields: fs}, r, nil
}

// ---------------------------------------------------------------------------------------------------------------
// normal form of map-backed dictionaries (the one exemption C02/C10 grant): sorted by key, duplicates removed
// (the last occurrence wins, as for insertion into a map).

func keyLess(kt *Type, a, b *Value) bool {
	if kt.Kind == KString {
		return a.S < b.S
	}
	return a.I < b.I
}

func keyEq(kt *Type, a, b *Value) bool {
	if kt.Kind == KString {
		return a.S == b.S
	}
	return a.I == b.I
}

// IsMapDict reports whether the generated Go code stores t in a map.
func IsMapDict(t *Type) bool {
	if t.Kind == KDict {
		return true
	}
	return t.Kind == KDictAny && (t.Key.Kind == KString || t.Key.Kind == KInt || t.Key.Kind == KLong)
}

// Normalize returns v with every map-backed dictionary sorted by key and de-duplicated; changed reports whether
// anything moved.
func Normalize(t *Type, v *Value, changed *bool) *Value {
	if v == nil {
		return nil
	}
	switch t.Kind {
	case KVector, KTuple, KMaybe:
		out := &Value{B: v.B}
		for _, e := range v.Elems {
			out.Elems = append(out.Elems, Normalize(t.Elem, e, changed))
		}
		return out
	case KDict, KDictAny:
		kt := TString
		if t.Kind == KDictAny {
			kt = t.Key
		}
		out := &Value{}
		for _, e := range v.Elems {
			out.Elems = append(out.Elems, &Value{Fields: []*Value{e.Fields[0], Normalize(t.Elem, e.Fields[1], changed)}})
		}
		if !IsMapDict(t) {
			return out
		}
		// last occurrence wins
		var dedup []*Value
		for i, e := range out.Elems {
			dup := false
			for _, l := range out.Elems[i+1:] {
				if keyEq(kt, e.Fields[0], l.Fields[0]) {
					dup = true
					break
				}
			}
			if !dup {
				dedup = append(dedup, e)
			} else {
				*changed = true
			}
		}
		if !sort.SliceIsSorted(dedup, func(i, j int) bool { return keyLess(kt, dedup[i].Fields[0], dedup[j].Fields[0]) }) {
			*changed = true
			sort.SliceStable(dedup, func(i, j int) bool { return keyLess(kt, dedup[i].Fields[0], dedup[j].Fields[0]) })
		}
		out.Elems = dedup
		return out
	case KStruct:
		return &Value{Fields: normFields(t.Def, v.Fields, changed)}
	case KUnion:
		return &Value{Variant: v.Variant, Fields: normFields(t.U.Variants[v.Variant], v.Fields, changed)}
	}
	return v
}

func normFields(d *StructDef, fs []*Value, changed *bool) []*Value {
	out := make([]*Value, len(fs))
	for i := range fs {
		out[i] = Normalize(d.Fields[i].T, fs[i], changed)
	}
	return out
}
