package uni

import (
	"fmt"
	"hash/crc32"
	"sort"
	"strings"
)

// Registry / function universe (C17, C08 function part). A separate universe, built by new functions only:
// Universe() is untouched. Three namespaces so that TL2 whitelists can cover a strict subset of the items:
//
//	w.  the namespace the whitelists name; its types reference types of u. through every constructor the model has
//	    (plain field, vector, tuple, Maybe, dictionary, union variant, nat template, function argument, function result)
//	u.  types reachable from w. (must get TL2 although not named), types not reachable (must not), a type that only
//	    *references* a w. type (must not), unions/enums on both sides, functions with every annotation combination
//	    of size <= 2 and the full set
//	(none) items without a namespace
//
// plus nat templates (u.ar-style) that must never be registered, and a few declarations without an explicit tag
// (tag = CRC32 of the canonical form, TL documentation).

// RegItem is one registry entry the schema demands.
type RegItem struct {
	Name   string
	Tag    uint32 // 0 for a union type (no tag of its own)
	Def    *StructDef
	U      *UnionDef // union type item
	IsFunc bool
	Annot  []string
	Prim   bool // prelude primitive (int, long, ..., true)
}

// RegUniverse = schema + expected registry.
type RegUniverse struct {
	S          *Schema
	Items      []*RegItem          // every item that must be registered (union type items: see UnionItems)
	ByName     map[string]*RegItem // by registry name
	Templates  []string            // constructor and type names that must NOT be registered (template-only)
	Undefined  map[string]bool     // names the model says nothing about (Bool and its constructors)
	ImplicitTg map[*StructDef]bool // declarations printed without "#tag"
}

// AnnotationNames are the annotations every generated registry knows.
var AnnotationNames = []string{"any", "internal", "kphp", "read", "readwrite", "write"}

// crcTag = CRC32 (IEEE) of the canonical combinator text; used only for the simple shapes declared below
// (no templates, no masks, bare lower-case field types), where the canonical form is the declaration without
// "#tag" and ";" with single spaces.
func crcTag(d *StructDef) uint32 {
	var b strings.Builder
	b.WriteString(d.Name)
	for _, f := range d.Fields {
		b.WriteByte(' ')
		if f.Name != "" {
			b.WriteString(f.Name + ":")
		}
		b.WriteString(TypeText(f.T, d))
	}
	b.WriteString(" = " + d.TypeName)
	return crc32.ChecksumIEEE([]byte(b.String()))
}

func (b *Builder) structNS(ns, name string, natParams []string, fields ...Field) *StructDef {
	d := &StructDef{Name: name, TypeName: upFirst(name), Tag: b.tag(), NatParams: natParams, Fields: fields}
	if ns != "" {
		d.Name, d.TypeName = ns+"."+name, ns+"."+upFirst(name)
	}
	b.S.Structs = append(b.S.Structs, d)
	return d
}

func (b *Builder) variantNS(ns, name string, fields ...Field) *StructDef {
	d := &StructDef{Name: ns + "." + name, Tag: b.tag(), Fields: fields}
	b.S.Structs = append(b.S.Structs, d)
	return d
}

func (b *Builder) unionNS(ns, typeName string, variants ...*StructDef) *UnionDef {
	u := &UnionDef{TypeName: ns + "." + typeName}
	for _, v := range variants {
		v.TypeName = u.TypeName
		v.Union = u
		u.Variants = append(u.Variants, v)
	}
	b.S.Unions = append(b.S.Unions, u)
	return u
}

// UniverseReg builds the registry/function universe. level 0: only the declarations below; level >= 1: merged with
// Universe(level) (whose items all live in namespace u., are not referenced from w. and use a disjoint tag range), so
// that every top-level type, union and constructor of the main universe is checked against the registry as well.
func UniverseReg(level int) *RegUniverse {
	b := NewBuilder("u")
	b.next = 0x20000001
	ru := &RegUniverse{S: b.S, ByName: map[string]*RegItem{}, Undefined: map[string]bool{"Bool": true, "boolTrue": true, "boolFalse": true},
		ImplicitTg: map[*StructDef]bool{}}
	top := func(d *StructDef) *StructDef { b.S.Tops = append(b.S.Tops, d); return d }

	// ---- u.: reachable from w. only through one constructor each
	shared := top(b.structNS("u", "shared", nil, F("a", TInt), F("b", TString)))
	elem := top(b.structNS("u", "elem", nil, F("x", TInt)))
	viaTuple := top(b.structNS("u", "viaTuple", nil, F("x", TLong)))
	viaMaybe := top(b.structNS("u", "viaMaybe", nil, F("x", TString)))
	viaDict := top(b.structNS("u", "viaDict", nil, F("x", TInt)))
	viaUnion := top(b.structNS("u", "viaUnion", nil, F("x", TInt)))
	viaTpl := top(b.structNS("u", "viaTpl", nil, F("x", TInt)))
	viaArg := top(b.structNS("u", "viaArg", nil, F("x", TInt)))
	viaRes := top(b.structNS("u", "viaRes", nil, F("x", TInt), F("s", TString)))
	viaMasked := top(b.structNS("u", "viaMasked", nil, F("x", TInt)))
	deep2 := top(b.structNS("u", "deep2", nil, F("x", TInt)))
	deep1 := top(b.structNS("u", "deep1", nil, F("x", Ref(deep2))))
	uReachUn := b.unionNS("u", "ReachUn", b.variantNS("u", "r0", F("x", TInt)), b.variantNS("u", "r1"), b.variantNS("u", "r2", F("s", TString)))
	uReachEn := b.unionNS("u", "ReachEn", b.variantNS("u", "q0"), b.variantNS("u", "q1"))
	// ---- u.: not reachable from w.
	alone2 := top(b.structNS("u", "alone2", nil, F("x", TInt)))
	top(b.structNS("u", "alone", nil, F("x", TInt), F("y", Ref(alone2))))
	top(b.structNS("u", "aloneVec", nil, F("x", Vec(TInt)), F("d", Dict(TString))))
	aloneUn := b.unionNS("u", "AloneUn", b.variantNS("u", "p0"), b.variantNS("u", "p1", F("x", TInt)))
	aloneEn := b.unionNS("u", "AloneEn", b.variantNS("u", "o0"), b.variantNS("u", "o1"), b.variantNS("u", "o2"))
	top(b.structNS("u", "aloneUse", nil, F("a", URef(aloneUn)), F("b", URef(aloneEn))))
	top(b.structNS("u", "aloneTd", nil, F("", TInt)))
	// nat templates: never registered
	tplAr := b.structNS("u", "tplAr", []string{"n"}, F("a", Tup(TInt, OuterN(0))))
	tplOm := b.structNS("u", "tplOm", []string{"m"}, FM("a", TInt, OuterN(0), 0), FM("b", Ref(viaTpl), OuterN(0), 1))
	top(b.structNS("u", "aloneTpl", nil, F("n", TNat), F("v", Ref(tplAr, FieldN(0)))))
	// names from the collision alphabet (distinct TL names that are close in Go spelling)
	top(b.structNS("u", "read", nil, F("x", TInt)))
	top(b.structNS("u", "write", nil, F("x", TInt)))
	top(b.structNS("u", "reset", nil, F("x", TInt)))
	top(b.structNS("u", "type", nil, F("x", TInt)))
	top(b.structNS("u", "a_b", nil, F("x", TInt)))
	top(b.structNS("u", "aB", nil, F("y", TInt)))
	top(b.structNS("uu", "shared", nil, F("x", TInt))) // same local name in another namespace
	// implicit (CRC32) tags
	for _, d := range []*StructDef{
		b.structNS("u", "crcA", nil, F("x", TInt)),
		b.structNS("u", "crcB", nil, F("x", TInt), F("y", TString), F("z", TLong)),
		b.structNS("u", "crcC", nil),
	} {
		top(d)
		d.Tag = crcTag(d)
		ru.ImplicitTg[d] = true
	}

	// ---- w.
	leaf := top(b.structNS("w", "leaf", nil, F("x", TInt)))
	top(b.structNS("w", "plainRef", nil, F("a", Ref(shared)), F("l", Ref(leaf))))
	top(b.structNS("w", "vec", nil, F("x", Vec(Ref(elem)))))
	top(b.structNS("w", "tup", nil, F("x", Tup(Ref(viaTuple), Const(2)))))
	top(b.structNS("w", "maybe", nil, F("x", Maybe(Ref(viaMaybe)))))
	top(b.structNS("w", "dict", nil, F("x", Dict(Ref(viaDict)))))
	top(b.structNS("w", "masked", nil, F("m", TNat), FM("x", Ref(viaMasked), FieldN(0), 0)))
	top(b.structNS("w", "deep", nil, F("x", Vec(Maybe(Ref(deep1))))))
	wUn := b.unionNS("w", "Un", b.variantNS("w", "c0", F("x", TInt)), b.variantNS("w", "c1", F("y", Ref(viaUnion))), b.variantNS("w", "c2"))
	wEn := b.unionNS("w", "En", b.variantNS("w", "n0"), b.variantNS("w", "n1"))
	top(b.structNS("w", "useUn", nil, F("a", URef(wUn)), F("b", URef(wEn)), F("c", URef(uReachUn)), F("d", Vec(URef(uReachEn)))))
	top(b.structNS("w", "useTpl", nil, F("m", TNat), F("v", Ref(tplOm, FieldN(0)))))
	top(b.structNS("w", "td", nil, F("", TString)))
	top(b.structNS("w", "empty", nil))
	// a u. type that only references w. (must not get TL2 from the w. whitelist)
	top(b.structNS("u", "refW", nil, F("x", Ref(leaf))))

	// ---- no namespace
	top(b.structNS("", "plain", nil, F("x", TInt)))
	top(b.structNS("", "plainAlone", nil, F("x", TString)))

	// ---- functions
	fn := func(ns, name string, annot []string, result *Type, fields ...Field) *StructDef {
		d := &StructDef{Name: name, Tag: b.tag(), Fields: fields, IsFunc: true, Result: result, Annot: annot}
		if ns != "" {
			d.Name = ns + "." + name
		}
		return d
	}
	var funcs []*StructDef
	// every annotation subset of size <= 2 plus the full set, on functions of u.
	var subsets [][]string
	subsets = append(subsets, nil)
	for i := range AnnotationNames {
		subsets = append(subsets, []string{AnnotationNames[i]})
	}
	for i := range AnnotationNames {
		for j := i + 1; j < len(AnnotationNames); j++ {
			subsets = append(subsets, []string{AnnotationNames[i], AnnotationNames[j]})
		}
	}
	subsets = append(subsets, append([]string{}, AnnotationNames...))
	for i, s := range subsets {
		funcs = append(funcs, fn("u", fmt.Sprintf("g%d", i), s, TIntB, F("x", TInt)))
	}
	// result kinds (w. functions: whitelisted; results/arguments pull u. types into TL2)
	rb := func(d *StructDef, args ...Nat) *Type { return RefBoxed(d, args...) }
	funcs = append(funcs,
		fn("w", "fInt", []string{"read"}, TIntB),
		fn("w", "fStr", []string{"write"}, TStrB, F("k", TString)),
		fn("w", "fBool", []string{"read"}, TBool, F("k", TInt)),
		fn("w", "fTrue", []string{"readwrite"}, &Type{Kind: KTrue, Boxed: true}),
		fn("w", "fVec", []string{"read"}, VecBoxed(TInt), F("k", TInt)),
		fn("w", "fVecStr", []string{"read"}, VecBoxed(TString)),
		fn("w", "fVecSt", []string{"read"}, VecBoxed(Ref(shared))),
		fn("w", "fMaybe", []string{"read"}, Maybe(TString)),
		fn("w", "fMaybeSt", []string{"read"}, Maybe(Ref(elem))),
		fn("w", "fDict", []string{"read"}, &Type{Kind: KDict, Elem: TInt, Boxed: true}),
		fn("w", "fUn", []string{"read"}, URef(wUn), F("a", URef(wEn))),
		fn("w", "fEn", []string{"any"}, URef(wEn)),
		fn("w", "fRes", []string{"read"}, rb(viaRes), F("a", Ref(viaArg))),
		fn("w", "fSized", []string{"read"}, rb(tplAr, FieldN(0)), F("n", TNat)),
		fn("w", "fMaskedRes", []string{"read"}, rb(tplOm, FieldN(0)), F("m", TNat), FM("x", TInt, FieldN(0), 2)),
		fn("w", "fArgs", []string{"kphp"}, TIntB, F("m", TNat), FM("a", TInt, FieldN(0), 0), FM("s", TString, FieldN(0), 1), F("v", Vec(TString))),
		fn("u", "hAlone", []string{"internal"}, rb(alone2), F("x", Ref(alone2))),
		fn("", "plainFn", nil, TIntB, F("x", TInt)),
	)
	if level >= 1 {
		ms, _ := Universe(level)
		b.S.Structs = append(b.S.Structs, ms.Structs...)
		b.S.Tops = append(b.S.Tops, ms.Tops...)
		b.S.Unions = append(b.S.Unions, ms.Unions...)
	}
	for _, f := range funcs {
		b.S.Structs = append(b.S.Structs, f)
		b.S.Tops = append(b.S.Tops, f)
	}

	// ---- expected registry
	add := func(it *RegItem) {
		ru.Items = append(ru.Items, it)
		ru.ByName[it.Name] = it
	}
	for _, p := range []struct {
		n string
		t uint32
	}{{"int", TagInt}, {"long", TagLong}, {"double", TagDouble}, {"float", TagFloat}, {"string", TagString}, {"true", TagTrue}} {
		add(&RegItem{Name: p.n, Tag: p.t, Prim: true})
	}
	for _, d := range b.S.Structs {
		if len(d.NatParams) > 0 {
			ru.Templates = append(ru.Templates, d.Name, d.TypeName)
			continue
		}
		add(&RegItem{Name: d.Name, Tag: d.Tag, Def: d, IsFunc: d.IsFunc, Annot: d.Annot})
	}
	for _, u := range b.S.Unions {
		add(&RegItem{Name: u.TypeName, U: u})
	}
	ru.Templates = append(ru.Templates, "vector", "Vector", "tuple", "Tuple", "dictionary", "Dictionary", "dictionaryField", "DictionaryField",
		"dictionaryAny", "DictionaryAny", "dictionaryAnyField", "DictionaryAnyField", "resultFalse", "resultTrue", "Maybe")
	sort.Strings(ru.Templates)
	return ru
}

// Text prints the registry universe (declarations in ImplicitTg without "#tag").
func (ru *RegUniverse) Text() string {
	var b strings.Builder
	b.WriteString(Prelude)
	fn := false
	for _, d := range ru.S.Structs {
		if d.IsFunc && !fn {
			b.WriteString("\n---functions---\n")
			fn = true
		}
		t := DeclText(d)
		if ru.ImplicitTg[d] {
			t = strings.Replace(t, fmt.Sprintf("#%08x", d.Tag), "", 1)
		}
		if i := strings.Index(t, " => ("); d.IsFunc && i >= 0 && strings.HasSuffix(t, ");") {
			// "for historic reasons, round brackets are not allowed" around a function result
			t = t[:i] + " => " + t[i+5:len(t)-2] + ";"
		}
		b.WriteString(t)
		b.WriteByte('\n')
	}
	return b.String()
}

// nsOf returns the namespace of a TL name ("" if none).
func nsOf(name string) string {
	if i := strings.IndexByte(name, '.'); i >= 0 {
		return name[:i]
	}
	return ""
}

// WhitelistHas implements the documented filter syntax: comma-separated fully-qualified names, or namespaces with a
// trailing '.', '*' = everything, empty = nothing.
func WhitelistHas(filter, name string) bool {
	for _, f := range strings.Split(filter, ",") {
		f = strings.TrimSpace(f)
		switch {
		case f == "":
		case f == "*":
			return true
		case strings.HasSuffix(f, "."):
			if nsOf(name) == strings.TrimSuffix(f, ".") {
				return true
			}
		case f == name:
			return true
		}
	}
	return false
}

// TL2Set returns the registry names that must have TL2 code under a whitelist: the least set that contains every
// whitelisted item and is closed under "X has TL2 => everything X's wire format refers to has TL2" (field types,
// function results, union <-> its constructors).
func (ru *RegUniverse) TL2Set(filter string) map[string]bool {
	set := map[string]bool{}
	seenD := map[*StructDef]bool{}
	seenU := map[*UnionDef]bool{}
	var walkT func(t *Type)
	var walkD func(d *StructDef)
	var walkU func(u *UnionDef)
	walkU = func(u *UnionDef) {
		if seenU[u] {
			return
		}
		seenU[u] = true
		set[u.TypeName] = true
		for _, v := range u.Variants {
			walkD(v)
		}
	}
	walkD = func(d *StructDef) {
		if seenD[d] {
			return
		}
		seenD[d] = true
		set[d.Name] = true
		if d.Union != nil {
			walkU(d.Union)
		}
		for i := range d.Fields {
			walkT(d.Fields[i].T)
		}
		if d.Result != nil {
			walkT(d.Result)
		}
	}
	walkT = func(t *Type) {
		if t == nil {
			return
		}
		switch t.Kind {
		case KInt, KLong, KDouble, KFloat, KString, KTrue:
			set[map[Kind]string{KInt: "int", KLong: "long", KDouble: "double", KFloat: "float", KString: "string", KTrue: "true"}[t.Kind]] = true
		case KDict:
			set["string"] = true
		case KStruct:
			walkD(t.Def)
		case KUnion:
			walkU(t.U)
		}
		walkT(t.Elem)
		walkT(t.Key)
	}
	for _, it := range ru.Items {
		if !WhitelistHas(filter, it.Name) {
			continue
		}
		switch {
		case it.Def != nil:
			walkD(it.Def)
		case it.U != nil:
			walkU(it.U)
		default:
			set[it.Name] = true
		}
	}
	return set
}

// ---------------------------------------------------------------------------------------------------------------
// TL2-source registry universe (C17, option set t1): TL2 declarations may carry annotations on TYPES as well as on
// functions, and any identifier is accepted there. Known annotations (the six the registry has accessors for) and
// unknown ones are put on structs, aliases and unions; the unknown names are chosen so that they sort before, between
// and after the six known names (an index computed from a sorted list must not turn an unknown name into a known bit).
// TL2 types have no constructor tag of their own (registry tag 0, lookup by name only), have no TL1 side, and union
// variants are not items.

// RegTL2Item is one expected registry entry of the TL2-source universe.
type RegTL2Item struct {
	Name   string
	Tag    uint32 // functions only
	IsFunc bool
	Annot  []string // the known annotations of the declaration (unknown ones have no accessor)
	Decl   string
}

// RegTL2Universe returns the TL2 source text and the registry it demands.
func RegTL2Universe() (string, []*RegTL2Item) {
	var b strings.Builder
	var items []*RegTL2Item
	known := map[string]bool{}
	for _, a := range AnnotationNames {
		known[a] = true
	}
	add := func(annots []string, name string, tag uint32, body string) {
		var line strings.Builder
		it := &RegTL2Item{Name: name, Tag: tag, IsFunc: tag != 0}
		for _, a := range annots {
			line.WriteString("@" + a + " ")
			if known[a] {
				it.Annot = append(it.Annot, a)
			}
		}
		line.WriteString(name)
		if tag != 0 {
			fmt.Fprintf(&line, "#%08x", tag)
		}
		line.WriteString(" " + body + ";")
		it.Decl = line.String()
		b.WriteString(it.Decl + "\n")
		items = append(items, it)
	}
	b.WriteString("// C17: TL2-source registry universe (generated by gen/uni/universe_reg.go)\n")
	add(nil, "svc.point", 0, "= x:int32 y:int32")
	// unknown annotation names around every known one: aaa < any < experimental < internal < jjj < kphp < lll < read <
	// reada < readwrite < slow < write < zzz
	for i, a := range []string{"aaa", "experimental", "jjj", "lll", "reada", "slow", "zzz"} {
		add([]string{a}, fmt.Sprintf("svc.unk%d", i), 0, "= x:int32")
	}
	add([]string{"deprecated"}, "svc.Shape", 0, "= circle r:int32 | square a:int32")
	add([]string{"aaa", "zzz"}, "svc.Color", 0, "= red | green | blue")
	add([]string{"experimental", "slow"}, "svc.twoUnknown", 0, "= name:string limit:int32")
	// known annotations on types
	for _, a := range AnnotationNames {
		add([]string{a}, "svc.known"+upFirst(a), 0, "= x:int32")
	}
	add([]string{"read", "kphp"}, "svc.knownTwo", 0, "= x:int32 s:string")
	add([]string{"internal", "experimental"}, "svc.mixed", 0, "= x:int32")
	add(append([]string{}, AnnotationNames...), "svc.knownAll", 0, "= x:int32")
	add([]string{"write"}, "svc.KnownUnion", 0, "= a x:int32 | b")
	// functions (only known annotations: an unknown one on a function is a generator warning and would enter the list)
	tag := uint32(0x1b8b9f01)
	fn := func(annots []string, name, body string) {
		add(annots, name, tag, body)
		tag++
	}
	fn(nil, "svc.fNone", "p:svc.point => svc.point")
	for _, a := range AnnotationNames {
		fn([]string{a}, "svc.f"+upFirst(a), "id:int32 => svc.unk1")
	}
	fn([]string{"read", "write"}, "svc.fTwo", "cfg:svc.twoUnknown => bool")
	fn(append([]string{}, AnnotationNames...), "svc.fAll", "=> int32")
	fn([]string{"readwrite"}, "svc.fUnion", "p:svc.point => svc.Shape")
	return b.String(), items
}
