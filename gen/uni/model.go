// Package uni is the schema universe and the independent reference codec of the generated-code checks.
// It never imports anything from /repo: the implementation under test only ever sees the TL *text* printed from this
// model; the reference only ever sees the model. Written from docs/tldoc.ru.md, the TL primer and the TL2 primer.
package uni

import (
	"fmt"
	"strings"
)

type Kind int

const (
	KInt Kind = iota
	KLong
	KDouble
	KFloat
	KString
	KNat
	KBool    // Bool = boolFalse | boolTrue (always boxed)
	KTrue    // true (bare, zero bytes in TL1)
	KVector  // vector<T>: count + elements
	KTuple   // tuple<T,n> / n*[T]: n elements, no count
	KMaybe   // Maybe<T> = resultFalse | resultTrue T (always boxed)
	KDict    // dictionary<T>: vector of (key:string value:T); map in Go
	KDictAny // dictionaryAny<K,V>: vector of (key:K value:V); map in Go for int/long/string keys
	KStruct  // reference to a declared single-constructor type
	KUnion   // reference to a declared multi-constructor type (always boxed)
)

// NatKind says where a nat value comes from.
type NatKind int

const (
	NConst NatKind = iota
	NField         // an earlier field of the enclosing struct (index into Fields)
	NOuter         // a nat template parameter of the enclosing struct (index into NatParams)
)

type Nat struct {
	Kind NatKind
	V    uint32 // NConst
	Idx  int    // NField / NOuter
}

func Const(v uint32) Nat { return Nat{Kind: NConst, V: v} }
func FieldN(i int) Nat   { return Nat{Kind: NField, Idx: i} }
func OuterN(i int) Nat   { return Nat{Kind: NOuter, Idx: i} }

type Type struct {
	Kind  Kind
	Elem  *Type
	Key   *Type
	Size  Nat        // KTuple
	Def   *StructDef // KStruct
	Args  []Nat      // KStruct: actual nat arguments for Def.NatParams
	U     *UnionDef  // KUnion
	Boxed bool       // KStruct/KVector/KTuple/KInt...: written with the constructor tag in front
	Angle bool       // print applications as name<a,b> instead of (name a b)
}

type Mask struct {
	Src Nat // NField or NOuter
	Bit int
}

type Field struct {
	Name string // "" = anonymous
	T    *Type
	Mask *Mask
}

type StructDef struct {
	Name      string // constructor name, e.g. "u.s12" (lower-case first letter after namespace)
	TypeName  string // result type name, e.g. "u.S12"
	Tag       uint32 // explicit tag, always given in the universe
	NatParams []string
	Fields    []Field
	Union     *UnionDef // non-nil if this is a variant
	// functions
	IsFunc bool
	Result *Type
	Annot  []string
}

type UnionDef struct {
	TypeName string
	Variants []*StructDef
}

// Schema is one universe: declarations in printing order plus the list of top-level items a factory must know.
type Schema struct {
	Structs []*StructDef // every declared constructor (variants included), functions last
	Tops    []*StructDef // non-template, non-variant types and functions: reachable through the factory by name
	Unions  []*UnionDef
}

// ---------------------------------------------------------------------------------------------------------------
// TL1 text

const Prelude = `int#a8509bda ? = Int;
long#22076cba ? = Long;
double#2210c154 ? = Double;
float#824dab22 ? = Float;
string#b5286e24 ? = String;

vector#1cb5c415 {t:Type} # [t] = Vector t;
tuple#9770768a {t:Type} {n:#} [t] = Tuple t n;

dictionaryField {t:Type} key:string value:t = DictionaryField t;
dictionary#1f4c618f {t:Type} %(Vector %(DictionaryField t)) = Dictionary t;
dictionaryAnyField {k:Type} {v:Type} key:k value:v = DictionaryAnyField k v;
dictionaryAny#1f4c6190 {k:Type} {v:Type} # [(dictionaryAnyField k v)] = DictionaryAny k v;

true#3fedd339 = True;

boolFalse#bc799737 = Bool;
boolTrue#997275b5 = Bool;

resultFalse#27930a7b {t:Type} = Maybe t;
resultTrue#3f9c8ef8 {t:Type} t = Maybe t;

`

// Tags of the prelude constructors (from the text above).
const (
	TagInt         = 0xa8509bda
	TagLong        = 0x22076cba
	TagDouble      = 0x2210c154
	TagFloat       = 0x824dab22
	TagString      = 0xb5286e24
	TagVector      = 0x1cb5c415
	TagTuple       = 0x9770768a
	TagDictionary  = 0x1f4c618f
	TagDictAny     = 0x1f4c6190
	TagTrue        = 0x3fedd339
	TagBoolFalse   = 0xbc799737
	TagBoolTrue    = 0x997275b5
	TagResultFalse = 0x27930a7b
	TagResultTrue  = 0x3f9c8ef8
)

func natText(n Nat, d *StructDef) string {
	switch n.Kind {
	case NConst:
		return fmt.Sprint(n.V)
	case NField:
		return d.Fields[n.Idx].Name
	default:
		return d.NatParams[n.Idx]
	}
}

// TypeText prints a type expression as it appears in a field of d.
func TypeText(t *Type, d *StructDef) string { return typeText(t, d, false) }

func typeText(t *Type, d *StructDef, nested bool) string {
	TypeText := func(t *Type, d *StructDef) string { return typeText(t, d, true) }
	app := func(name string, args ...string) string {
		if t.Angle {
			return name + "<" + strings.Join(args, ", ") + ">"
		}
		return "(" + name + " " + strings.Join(args, " ") + ")"
	}
	switch t.Kind {
	case KInt:
		if t.Boxed {
			return "Int"
		}
		return "int"
	case KLong:
		if t.Boxed {
			return "Long"
		}
		return "long"
	case KDouble:
		if t.Boxed {
			return "Double"
		}
		return "double"
	case KFloat:
		if t.Boxed {
			return "Float"
		}
		return "float"
	case KString:
		if t.Boxed {
			return "String"
		}
		return "string"
	case KNat:
		return "#"
	case KBool:
		return "Bool"
	case KTrue:
		if t.Boxed {
			return "True"
		}
		return "true"
	case KVector:
		n := "vector"
		if t.Boxed {
			n = "Vector"
		}
		return app(n, TypeText(t.Elem, d))
	case KTuple:
		if t.Boxed {
			return app("Tuple", TypeText(t.Elem, d), natText(t.Size, d))
		}
		if t.Angle || nested {
			return app("tuple", TypeText(t.Elem, d), natText(t.Size, d))
		}
		return natText(t.Size, d) + "*[" + TypeText(t.Elem, d) + "]"
	case KMaybe:
		return app("Maybe", TypeText(t.Elem, d))
	case KDict:
		n := "dictionary"
		if t.Boxed {
			n = "Dictionary"
		}
		return app(n, TypeText(t.Elem, d))
	case KDictAny:
		n := "dictionaryAny"
		if t.Boxed {
			n = "DictionaryAny"
		}
		return app(n, TypeText(t.Key, d), TypeText(t.Elem, d))
	case KStruct:
		n := t.Def.Name
		if t.Boxed {
			n = t.Def.TypeName
		}
		if len(t.Args) == 0 {
			return n
		}
		var as []string
		for _, a := range t.Args {
			as = append(as, natText(a, d))
		}
		return app(n, as...)
	case KUnion:
		return t.U.TypeName
	}
	panic("bad kind")
}

// DeclText prints one combinator.
func DeclText(d *StructDef) string {
	var b strings.Builder
	for _, a := range d.Annot {
		b.WriteString("@" + a + " ")
	}
	fmt.Fprintf(&b, "%s#%08x", d.Name, d.Tag)
	for _, p := range d.NatParams {
		fmt.Fprintf(&b, " {%s:#}", p)
	}
	for _, f := range d.Fields {
		b.WriteByte(' ')
		if f.Name != "" {
			b.WriteString(f.Name + ":")
		}
		if f.Mask != nil {
			fmt.Fprintf(&b, "%s.%d?", natText(f.Mask.Src, d), f.Mask.Bit)
		}
		b.WriteString(TypeText(f.T, d))
	}
	if d.IsFunc {
		b.WriteString(" => " + TypeText(d.Result, d))
	} else {
		b.WriteString(" = " + d.TypeName)
		for _, p := range d.NatParams {
			b.WriteString(" " + p)
		}
	}
	b.WriteString(";")
	return b.String()
}

// Text prints the whole schema (prelude first, functions in a ---functions--- section at the end).
func (s *Schema) Text() string {
	var b strings.Builder
	b.WriteString(Prelude)
	fn := false
	for _, d := range s.Structs {
		if d.IsFunc && !fn {
			b.WriteString("\n---functions---\n")
			fn = true
		}
		b.WriteString(DeclText(d))
		b.WriteByte('\n')
	}
	return b.String()
}
