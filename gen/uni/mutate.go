package uni

import (
	"encoding/binary"
	"sort"
)

// SchemaTags returns every constructor tag a TL1 reader of this schema can meet (prelude + declared), sorted.
func (s *Schema) SchemaTags() []uint32 {
	set := map[uint32]bool{TagInt: true, TagLong: true, TagString: true, TagVector: true, TagTuple: true, TagDictionary: true,
		TagDictAny: true, TagTrue: true, TagBoolFalse: true, TagBoolTrue: true, TagResultFalse: true, TagResultTrue: true,
		TagDouble: true, TagFloat: true}
	for _, d := range s.Structs {
		set[d.Tag] = true
	}
	var out []uint32
	for t := range set {
		out = append(out, t)
	}
	sort.Slice(out, func(i, j int) bool { return out[i] < out[j] })
	return out
}

// TypeTags collects the tags that are meaningful somewhere inside d (its own tag, Bool/Maybe tags, union variants,
// boxed references), plus one foreign tag; used as the word alphabet of tag-swap mutants.
func TypeTags(d *StructDef) []uint32 {
	set := map[uint32]bool{d.Tag: true, 0x7fffffff: true}
	seen := map[*StructDef]bool{}
	var walkT func(t *Type)
	var walkD func(d *StructDef)
	walkD = func(d *StructDef) {
		if seen[d] {
			return
		}
		seen[d] = true
		for i := range d.Fields {
			walkT(d.Fields[i].T)
		}
	}
	walkT = func(t *Type) {
		if t == nil {
			return
		}
		switch t.Kind {
		case KBool:
			set[TagBoolFalse], set[TagBoolTrue] = true, true
		case KMaybe:
			set[TagResultFalse], set[TagResultTrue] = true, true
		case KUnion:
			for _, v := range t.U.Variants {
				set[v.Tag] = true
				walkD(v)
			}
		case KStruct:
			if t.Boxed {
				set[t.Def.Tag] = true
			}
			walkD(t.Def)
		case KInt, KLong, KString, KDouble, KFloat:
			if t.Boxed {
				set[primTag(t.Kind)] = true
			}
		case KVector:
			if t.Boxed {
				set[TagVector] = true
			}
		}
		walkT(t.Elem)
		walkT(t.Key)
	}
	walkD(d)
	var out []uint32
	for t := range set {
		out = append(out, t)
	}
	sort.Slice(out, func(i, j int) bool { return out[i] < out[j] })
	return out
}

// Mutants enumerates the byte-string neighbourhood of a valid encoding e (DESIGN.md §2.2): every truncation, every
// single-byte substitution from {00,01,FE,FF,b^01,b^80} at every offset, every 4-byte-aligned word replaced by every
// tag of tags. emit is called once per distinct mutant (e itself excluded).
func Mutants(e []byte, tags []uint32, seen map[string]bool, emit func(m []byte, kind string)) {
	try := func(m []byte, kind string) {
		k := string(m)
		if seen[k] {
			return
		}
		seen[k] = true
		emit(m, kind)
	}
	for i := 0; i < len(e); i++ {
		try(append([]byte{}, e[:i]...), "truncation")
	}
	for i := 0; i < len(e); i++ {
		for _, nb := range []byte{0x00, 0x01, 0xFE, 0xFF, e[i] ^ 0x01, e[i] ^ 0x80} {
			if nb == e[i] {
				continue
			}
			m := append([]byte{}, e...)
			m[i] = nb
			try(m, "byte-substitution")
		}
	}
	for i := 0; i+4 <= len(e); i += 4 {
		for _, t := range tags {
			m := append([]byte{}, e...)
			binary.LittleEndian.PutUint32(m[i:], t)
			try(m, "tag-swap")
		}
	}
}

// WordStrings enumerates all strings of <= maxWords 32-bit words over the word alphabet.
func WordStrings(alpha []uint32, maxWords int, emit func(m []byte)) {
	var rec func(cur []byte, left int)
	rec = func(cur []byte, left int) {
		emit(cur)
		if left == 0 {
			return
		}
		for _, w := range alpha {
			rec(binary.LittleEndian.AppendUint32(append([]byte{}, cur...), w), left-1)
		}
	}
	rec(nil, maxWords)
}
