package uni

import (
	"fmt"
	"sort"
	"strings"
)

// UniverseTL2N is a small universe of TL2-NATIVE types (printed as TL2 source text by TextTL2, not TL1) for the TL2-side
// checks: reserved fields `_:T` at every position 0..17 of a wide struct followed by plain, optional, bit and string
// fields (the reserved field keeps its slot and mask bit, is never written and is skipped on reading - in particular
// at the block boundaries 7 and 15), an optional empty struct and a nested struct
// in the second mask block. Conventions of the model for native types: see KBit / TL2Optional in tl2.go.
func UniverseTL2N() *Schema {
	s := &Schema{}
	add := func(name string, top bool, fields ...Field) *StructDef {
		d := &StructDef{Name: "n." + name, TypeName: "n." + name, Fields: fields}
		s.Structs = append(s.Structs, d)
		if top {
			s.Tops = append(s.Tops, d)
		}
		return d
	}
	tBit := &Type{Kind: KBit}
	opt := func(name string, t *Type) Field { return Field{Name: name, T: t, Mask: TL2Optional} }
	st := add("st", true, F("a", TInt), F("b", TString))
	empty := add("empty", true)
	for p := 0; p <= 17; p++ {
		var fs []Field
		for i := 0; i < 21; i++ {
			name := fmt.Sprintf("f%d", i)
			switch {
			case i == p:
				if p%2 == 0 {
					fs = append(fs, F("_", TInt))
				} else {
					fs = append(fs, F("_", TString))
				}
			case i%4 == 0:
				fs = append(fs, F(name, TInt))
			case i%4 == 1:
				fs = append(fs, opt(name, TInt))
			case i%4 == 2:
				fs = append(fs, F(name, tBit))
			default:
				fs = append(fs, opt(name, TString))
			}
		}
		add(fmt.Sprintf("o%d", p), true, fs...)
	}
	// two reserved fields in a row across the first boundary
	add("oo", true, F("f0", TInt), F("f1", TInt), F("f2", TInt), F("f3", TInt), F("f4", TInt), F("f5", TInt), F("_", TInt), F("_", TLong),
		opt("x", TInt), F("y", tBit), opt("z", TString))
	// NOT included: `n.bits = a:int32 v:[]bit w:[3]bit z:string` - tl2gen accepts it but the generated Go does not compile
	// (gen/internal/bit.go: undefined BitReadTL1 / BitWriteTL1), so packed bit arrays cannot be exercised; the reference
	// (tl2.go) and EnumTL2N support them and are ready for the day the generator does.
	add("wideopt", true, F("f0", TInt), F("f1", TInt), F("f2", TInt), F("f3", TInt), F("f4", TInt), F("f5", TInt), F("f6", TInt), F("f7", TInt),
		F("f8", tBit), opt("f9", Ref(empty)), F("f10", Ref(st)), F("f11", Vec(TInt)), opt("f12", TBool), F("f13", TBool))
	return s
}

func tl2TypeText(t *Type) string {
	switch t.Kind {
	case KInt:
		return "int32"
	case KLong:
		return "int64"
	case KNat:
		return "uint32"
	case KDouble:
		return "float64"
	case KFloat:
		return "float32"
	case KString:
		return "string"
	case KBool:
		return "bool"
	case KBit:
		return "bit"
	case KVector:
		return "[]" + tl2TypeText(t.Elem)
	case KTuple:
		return fmt.Sprintf("[%d]%s", t.Size.V, tl2TypeText(t.Elem))
	case KStruct:
		return t.Def.Name
	}
	panic("tl2TypeText: unsupported kind")
}

// DeclTextTL2 prints one TL2-native declaration.
func DeclTextTL2(d *StructDef) string {
	var b strings.Builder
	b.WriteString(d.Name + " =")
	for _, f := range d.Fields {
		q := ""
		if f.Mask != nil {
			q = "?"
		}
		b.WriteString(" " + f.Name + q + ":" + tl2TypeText(f.T))
	}
	b.WriteString(" ;")
	return b.String()
}

// TextTL2 prints a TL2-native schema (only the constructs UniverseTL2N uses).
func (s *Schema) TextTL2() string {
	var b strings.Builder
	for _, d := range s.Structs {
		b.WriteString(DeclTextTL2(d) + "\n")
	}
	return b.String()
}

// IsNative reports whether d belongs to a TL2-native universe (no TL1 side).
func IsNative(d *StructDef) bool { return strings.HasPrefix(d.Name, "n.") }

// EnumTL2N enumerates the values of a TL2-native struct within k deviations of the default: a plain field deviates by
// taking a non-default value, an optional field by being present (with the default value: 1, with another value: 2), a
// bit by being set; reserved fields have no value. Simplest first.
func EnumTL2N(d *StructDef, k int, dm *Domains) []VC {
	var out []VC
	var rec func(i int, cur []*Value, cost int)
	leaf := func(t *Type) []VC {
		switch t.Kind {
		case KBit:
			return []VC{{&Value{}, 0}, {&Value{B: true}, 1}}
		case KVector:
			if t.Elem.Kind == KBit {
				return []VC{{&Value{}, 0}, {&Value{Elems: []*Value{{B: true}}}, 1}, {&Value{Elems: []*Value{{}, {B: true}, {B: true}, {B: true}}}, 1},
					{&Value{Elems: []*Value{{B: true}, {}, {}, {}, {}, {}, {}, {}, {B: true}}}, 1}}
			}
		case KTuple:
			if t.Elem.Kind == KBit {
				n := int(t.Size.V)
				var vs []VC
				for m := 0; m < 1<<uint(n); m++ {
					v := &Value{}
					c := 0
					for j := 0; j < n; j++ {
						on := m>>uint(j)&1 != 0
						if on {
							c = 1
						}
						v.Elems = append(v.Elems, &Value{B: on})
					}
					vs = append(vs, VC{v, c})
				}
				return vs
			}
		}
		return dm.Enum(t, &Env{}, 2)
	}
	rec = func(i int, cur []*Value, cost int) {
		if i == len(d.Fields) {
			out = append(out, VC{&Value{Fields: append([]*Value(nil), cur...)}, cost})
			return
		}
		f := &d.Fields[i]
		if f.Name == "_" {
			rec(i+1, append(cur[:len(cur):len(cur)], nil), cost)
			return
		}
		if f.Mask != nil { // optional
			rec(i+1, append(cur[:len(cur):len(cur)], nil), cost)
			for _, e := range leaf(f.T) {
				if cost+1+e.C <= k {
					rec(i+1, append(cur[:len(cur):len(cur)], e.V), cost+1+e.C)
				}
			}
			return
		}
		for _, e := range leaf(f.T) {
			if cost+e.C <= k {
				rec(i+1, append(cur[:len(cur):len(cur)], e.V), cost+e.C)
			}
		}
	}
	rec(0, nil, 0)
	sort.SliceStable(out, func(a, b int) bool { return out[a].C < out[b].C })
	return out
}

// RenderTL2N renders a value of a TL2-native struct (like RenderFields, with bit fields and absent optional fields).
func RenderTL2N(d *StructDef, fs []*Value) string {
	var p []string
	for i := range d.Fields {
		f := &d.Fields[i]
		if f.Name == "_" || i >= len(fs) {
			continue
		}
		switch {
		case fs[i] == nil:
			p = append(p, f.Name+"=-")
		case f.T.Kind == KBit:
			p = append(p, fmt.Sprintf("%s=%v", f.Name, fs[i].B))
		case (f.T.Kind == KVector || f.T.Kind == KTuple) && f.T.Elem.Kind == KBit:
			bits := ""
			for _, e := range fs[i].Elems {
				if e.B {
					bits += "1"
				} else {
					bits += "0"
				}
			}
			p = append(p, f.Name+"=bits("+bits+")")
		default:
			p = append(p, f.Name+"="+fs[i].Render(f.T))
		}
	}
	return d.Name + "(" + strings.Join(p, " ") + ")"
}
