package uni

// TL2 reference codec, written from the TL2 primer (/verif/notes/TL2Primer.extracted.txt); never imports /repo.
//
// Format (primer sections in brackets):
//   * varlen [Строка]: 0..253 one byte; 254..2^16+253 as FE + uint16 LE of (n-254); everything else as FF + uint64 LE;
//     the FF form is also legal for small numbers ("неоптимально, но разрешено"). Used for string lengths, object and
//     array sizes, element counts and variant numbers.
//   * numbers [Численные типы]: little endian, fixed width. string: varlen length + bytes, no padding. bool: one byte,
//     0 = false, anything else = true, written as 0/1.
//   * object (struct or union) [Структуры, Объединения]: varlen size of the body + body. Body = one mask byte before
//     every 8 fields; field 0 is the implicit variant number (bit 0 of the first mask byte, value written as varlen only
//     if non-zero), declared field i uses bit (i+1)%8 of mask byte (i+1)/8. A clear bit = field not serialised = default.
//     A non-optional field equal to its default may be omitted (the optimal encoding does so); an optional field's bit is
//     its presence and its value is written even if default; a `bit` field is its mask bit only. A body may end early
//     (missing mask bytes are zero, missing fields default; size 0 = everything default) and may be longer than the reader
//     knows (the rest is skipped using the size). A struct is a union with the single variant 0.
//   * array [Массивы]: varlen size of the body + body; empty body = empty array, else varlen count + elements, all of
//     them written. Fixed-size arrays are written the same way; on reading, missing elements are default and surplus ones
//     ignored. Dictionaries [Словари] are arrays of {key,value} objects; when read into a map the last duplicate wins.
//   * Maybe stays a two-variant union {0: nothing | 1: value T} [Переход с TL1 на TL2].
//
// TL1 -> TL2 view of a schema [Переход с TL1 на TL2]: TL1 field masks (#) are ordinary uint32 fields; fields depending
// on a mask bit (local or outer) are optional; `x:m.b?true` is a bit; Bool is bool; `true` is the empty struct.
// Where the primer is silent the reference fixes a reading and exports it as an assumption (TL2Assumptions).

import (
	"encoding/binary"
	"errors"
	"fmt"
)

// TL2Assumptions lists what this reference defines beyond the primer's text; every check using it copies the list into
// its evidence.
var TL2Assumptions = []string{
	"TL2 reference: every declared TL1 field occupies one field slot (mask bit), including # fields, unmasked `true` fields (type = empty struct, never written by the optimal writer) and `m.b?true` bit fields",
	"TL2 reference: a TL1 constructor with a single anonymous field (`u.td int = u.Td`) is an alias of the field type (primer: Typedef и Alias); boxed and bare references to a type have the same TL2 encoding (TL2 has no magic)",
	"TL2 reference: `n*[T]` with a constant n (directly or through a template argument) is a fixed-size array [n]T, with a run-time n (field) it is a variable array whose count is taken from the TL2 bytes",
	"TL2 reference: vector<Bool> is an array of one-byte bool (the primer's migration note says vector<Bool> becomes vector<bit>; the generator under test keeps bytes; the reference follows the generator here and the divergence is recorded in NOTES.md)",
	"TL2 reference, optimal writer: a non-optional field is omitted iff its value is the type's default (numbers with all-zero bytes, empty string, false, empty object body, array of length 0, Maybe nothing); arrays of non-zero length are always written in full; objects at top level, as array elements and as optional fields are written even when empty (`00`)",
	"TL2 reference, tolerant reader: bytes of an array body after the last element are skipped like in objects; an explicit variant number 0 is accepted; a field whose type is an empty struct (unmasked `true`, a user-declared struct without fields, optional or not) and whose bit is set is skipped as an opaque sized value (its interior is not interpreted); a variable array whose count exceeds the remaining body is rejected (every element occupies at least one byte)",
	"TL2 reference: varlen numbers above 2^63-1 are not defined (inputs containing them where they would be interpreted are excluded from accept-set comparison)",
}

// TL2-native schemas (TL2 source text, uni.UniverseTL2N) reuse the model with three conventions: a field whose Mask is
// TL2Optional is an optional field `name?:T` (presence = the hidden mask bit only); a field named "_" is a reserved field
// `_:T` (keeps its slot and bit, is never written, is read and discarded when its bit is set - primer, Структуры); KBit is
// the TL2 type `bit` (as a field: the mask bit is the value; as an array element: 8 values per byte, LSB first).
const KBit Kind = 100

var TL2Optional = &Mask{Src: Nat{Kind: NConst, V: 1}, Bit: 0}

var (
	ErrT2EOF       = errors.New("tl2: unexpected end of input")
	ErrT2Size      = errors.New("tl2: declared size exceeds the remaining input")
	ErrT2Variant   = errors.New("tl2: variant number out of range")
	ErrT2Count     = errors.New("tl2: element count exceeds the remaining body")
	ErrT2Undefined = errors.New("tl2: reference does not define this input (varlen above 2^63-1)")
)

// ---------------------------------------------------------------------------------------------------------------
// varlen

// AppendVarlen appends n in the given form: 0 = minimal, 1 = medium (only legal for 254 <= n <= 2^16+253; falls back to
// minimal otherwise), 2 = huge.
func AppendVarlen(w []byte, n uint64, form int) []byte {
	switch {
	case form == 2:
		return binary.LittleEndian.AppendUint64(append(w, 255), n)
	case n <= 253:
		return append(w, byte(n))
	case n <= 1<<16+253:
		return binary.LittleEndian.AppendUint16(append(w, 254), uint16(n-254))
	}
	return binary.LittleEndian.AppendUint64(append(w, 255), n)
}

func readVarlen(r []byte) (uint64, []byte, error) {
	if len(r) == 0 {
		return 0, r, ErrT2EOF
	}
	switch r[0] {
	case 254:
		if len(r) < 3 {
			return 0, r, ErrT2EOF
		}
		return 254 + uint64(binary.LittleEndian.Uint16(r[1:])), r[3:], nil
	case 255:
		if len(r) < 9 {
			return 0, r, ErrT2EOF
		}
		n := binary.LittleEndian.Uint64(r[1:])
		if n > 1<<63-1 {
			return 0, r, ErrT2Undefined
		}
		return n, r[9:], nil
	}
	return uint64(r[0]), r[1:], nil
}

// ---------------------------------------------------------------------------------------------------------------
// static nat environment: which template arguments are compile-time constants (they decide fixed vs variable arrays)

type t2Nat struct {
	known bool
	v     uint32
}

type t2Env struct{ outer []t2Nat }

func (e *t2Env) nat(n Nat) t2Nat {
	switch n.Kind {
	case NConst:
		return t2Nat{true, n.V}
	case NOuter:
		if e != nil && n.Idx < len(e.outer) {
			return e.outer[n.Idx]
		}
	}
	return t2Nat{}
}

func (e *t2Env) args(t *Type) *t2Env {
	out := &t2Env{}
	for _, a := range t.Args {
		out.outer = append(out.outer, e.nat(a))
	}
	return out
}

func isAlias(d *StructDef) bool {
	return d.Union == nil && len(d.Fields) == 1 && d.Fields[0].Name == "" && d.Fields[0].Mask == nil
}

var (
	defNothing = &StructDef{Name: "nothing"}
	tString    = &Type{Kind: KString}
)

func defJust(t *Type) *StructDef {
	return &StructDef{Name: "just", Fields: []Field{{Name: "value", T: t.Elem}}}
}

func defEntry(t *Type) *StructDef {
	kt := tString
	if t.Kind == KDictAny {
		kt = t.Key
	}
	return &StructDef{Name: "entry", Fields: []Field{{Name: "key", T: kt}, {Name: "value", T: t.Elem}}}
}

// ---------------------------------------------------------------------------------------------------------------
// encoding plan: the tree of sizes, masks, counts and leaves of one encoding, with knobs for admissible re-encodings.
// The optimal encoding is the plan with all knobs zero; C13 turns knobs.

const (
	PRaw = iota // fixed bytes (numbers, bool)
	PStr        // varlen length + bytes
	PObj        // varlen size + body with mask bytes
	PArr        // varlen size + (count + elements)
)

type T2Slot struct {
	Set bool    // mask bit
	N   *T2Plan // nil: bit only / omitted
}

type T2Knobs struct {
	SizeForm        int    // PStr/PObj/PArr: form of the size (0 minimal, 1 medium, 2 huge)
	CountForm       int    // PArr: form of the count
	VariantForm     int    // PObj: form of the variant number
	ExplicitVariant bool   // PObj: write the variant number even if it is 0
	NoTrim          bool   // PObj: keep every mask byte of the declared fields (explicit zero masks instead of a short body)
	PadMask         int    // PObj: extra zero bytes after the body (the next, all-zero mask bytes)
	Unknown         []byte // PObj: bytes of one field the reader does not know, appended after the declared fields
	Announce        bool   // PObj: set the mask bit of the unknown field (otherwise the bytes just follow; implies NoTrim)
	Cut             bool   // PObj: slots >= CutAt are not serialised (older writer)
	CutAt           int
	ZeroCount       bool // PArr, empty: body = explicit count 0
	DropLast        bool // PArr, fixed size: one element fewer than the size
	AddElem         bool // PArr, fixed size: one default element more than the size
	SizeOver        bool // negative test: the declared size is what remains in the enclosing body plus one
}

type T2Plan struct {
	Kind    int
	Raw     []byte
	Variant int
	Slots   []T2Slot
	Elems   []*T2Plan
	Fixed   int     // PArr: the fixed size, -1 for variable arrays
	ElemDef *T2Plan // PArr: plan of a default element (for AddElem)
	IsBits  bool    // PArr of bit: Bits instead of Elems, packed 8 per byte
	Bits    []bool
	Path    string  // where in the value this node sits (for reports)
	K       T2Knobs
}

// Walk visits every node of the plan.
func (p *T2Plan) Walk(f func(*T2Plan)) {
	if p == nil {
		return
	}
	f(p)
	for _, s := range p.Slots {
		s.N.Walk(f)
	}
	for _, e := range p.Elems {
		e.Walk(f)
	}
}

func rawLE(n int, v uint64) []byte {
	b := make([]byte, 8)
	binary.LittleEndian.PutUint64(b, v)
	return b[:n]
}

func planEmpty(p *T2Plan) bool {
	switch p.Kind {
	case PRaw, PStr:
		for _, b := range p.Raw {
			if b != 0 {
				return false
			}
		}
		return p.Kind == PRaw || len(p.Raw) == 0
	case PObj:
		if p.Variant != 0 {
			return false
		}
		for _, s := range p.Slots {
			if s.Set {
				return false
			}
		}
		return true
	}
	return len(p.Elems) == 0 && len(p.Bits) == 0
}

// planOf builds the optimal plan of v:t.
func planOf(t *Type, v *Value, env *t2Env, path string) *T2Plan {
	switch t.Kind {
	case KInt:
		return &T2Plan{Kind: PRaw, Raw: rawLE(4, uint64(uint32(int32(v.I)))), Path: path}
	case KLong:
		return &T2Plan{Kind: PRaw, Raw: rawLE(8, uint64(v.I)), Path: path}
	case KDouble:
		return &T2Plan{Kind: PRaw, Raw: rawLE(8, v.Fb), Path: path}
	case KFloat:
		return &T2Plan{Kind: PRaw, Raw: rawLE(4, v.Fb), Path: path}
	case KNat:
		return &T2Plan{Kind: PRaw, Raw: rawLE(4, uint64(v.N)), Path: path}
	case KBool:
		b := byte(0)
		if v.B {
			b = 1
		}
		return &T2Plan{Kind: PRaw, Raw: []byte{b}, Path: path}
	case KString:
		return &T2Plan{Kind: PStr, Raw: []byte(v.S), Path: path}
	case KTrue:
		return &T2Plan{Kind: PObj, Path: path}
	case KStruct:
		if isAlias(t.Def) {
			return planOf(t.Def.Fields[0].T, v.Fields[0], env.args(t), path)
		}
		return planObj(t.Def, v.Fields, 0, env.args(t), path)
	case KUnion:
		return planObj(t.U.Variants[v.Variant], v.Fields, v.Variant, &t2Env{}, path)
	case KMaybe:
		if !v.B {
			return planObj(defNothing, nil, 0, env, path)
		}
		return planObj(defJust(t), v.Elems, 1, env, path)
	case KVector, KTuple, KDict, KDictAny:
		p := &T2Plan{Kind: PArr, Fixed: -1, Path: path}
		if t.Kind == KTuple {
			if n := env.nat(t.Size); n.known {
				p.Fixed = int(n.v)
			}
		}
		if (t.Kind == KVector || t.Kind == KTuple) && t.Elem.Kind == KBit {
			p.IsBits = true
			for _, e := range v.Elems {
				p.Bits = append(p.Bits, e.B)
			}
			return p
		}
		for i, e := range v.Elems {
			ep := fmt.Sprintf("%s[%d]", path, i)
			if t.Kind == KDict || t.Kind == KDictAny {
				p.Elems = append(p.Elems, planObj(defEntry(t), e.Fields, 0, env, ep))
			} else {
				p.Elems = append(p.Elems, planOf(t.Elem, e, env, ep))
			}
		}
		if p.Fixed >= 0 {
			p.ElemDef = planOf(t.Elem, t2Default(t.Elem, env), env, path+"[+]")
		}
		return p
	}
	panic("planOf: bad kind")
}

func planObj(d *StructDef, fs []*Value, variant int, env *t2Env, path string) *T2Plan {
	p := &T2Plan{Kind: PObj, Variant: variant, Path: path}
	for i := range d.Fields {
		f := &d.Fields[i]
		var fv *Value
		if i < len(fs) {
			fv = fs[i]
		}
		fp := path + "." + f.Name
		switch {
		case f.Name == "_": // reserved field: slot kept, never written
			p.Slots = append(p.Slots, T2Slot{})
		case f.T.Kind == KBit: // TL2 bit
			p.Slots = append(p.Slots, T2Slot{Set: fv != nil && fv.B})
		case f.T.Kind == KTrue && !f.T.Boxed && f.Mask != nil: // bit
			p.Slots = append(p.Slots, T2Slot{Set: fv != nil})
		case f.Mask != nil: // optional: presence bit, value written raw
			if fv == nil {
				p.Slots = append(p.Slots, T2Slot{})
			} else {
				p.Slots = append(p.Slots, T2Slot{Set: true, N: planOf(f.T, fv, env, fp)})
			}
		default: // required: omitted when default
			if fv == nil {
				p.Slots = append(p.Slots, T2Slot{})
				continue
			}
			n := planOf(f.T, fv, env, fp)
			if planEmpty(n) {
				p.Slots = append(p.Slots, T2Slot{})
			} else {
				p.Slots = append(p.Slots, T2Slot{Set: true, N: n})
			}
		}
	}
	return p
}

// T2Site is a size position recorded by Serialize (for the negative test).
type T2Site struct {
	Off  int     // offset of the size varlen in the output
	End  int     // end offset of the body enclosing this value (len(output) for the top-level value)
	Node *T2Plan
}

type t2ser struct {
	w     []byte
	sites []T2Site
}

// Serialize renders the plan (with its knobs) and returns the bytes and the size positions.
func (p *T2Plan) Serialize() ([]byte, []T2Site) {
	s := &t2ser{}
	s.node(p, true)
	for i := range s.sites {
		if s.sites[i].End < 0 {
			s.sites[i].End = len(s.w)
		}
	}
	return s.w, s.sites
}

// sized writes size + body where body is produced by f into a scratch serializer; returns nothing. parentEndFix: the
// sites recorded inside get the body end as End.
func (s *t2ser) sized(p *T2Plan, body func(b *t2ser)) {
	b := &t2ser{}
	body(b)
	off := len(s.w)
	s.sites = append(s.sites, T2Site{Off: off, End: -1, Node: p})
	size := uint64(len(b.w))
	s.w = AppendVarlen(s.w, size, p.K.SizeForm)
	base := len(s.w)
	for _, st := range b.sites {
		st.Off += base
		if st.End < 0 {
			st.End = base + len(b.w)
		} else {
			st.End += base
		}
		s.sites = append(s.sites, st)
	}
	s.w = append(s.w, b.w...)
}

func (s *t2ser) node(p *T2Plan, _ bool) {
	switch p.Kind {
	case PRaw:
		s.w = append(s.w, p.Raw...)
	case PStr:
		s.sized(p, func(b *t2ser) { b.w = append(b.w, p.Raw...) })
	case PArr:
		if p.IsBits {
			s.sized(p, func(b *t2ser) {
				bits := p.Bits
				if p.K.DropLast && len(bits) > 0 {
					bits = bits[:len(bits)-1]
				}
				if p.K.AddElem {
					bits = append(append([]bool{}, bits...), false)
				}
				if len(bits) == 0 && !p.K.ZeroCount {
					return
				}
				b.w = AppendVarlen(b.w, uint64(len(bits)), p.K.CountForm)
				for i := 0; i < len(bits); i += 8 {
					var x byte
					for j := 0; j < 8 && i+j < len(bits); j++ {
						if bits[i+j] {
							x |= 1 << uint(j)
						}
					}
					b.w = append(b.w, x)
				}
			})
			return
		}
		s.sized(p, func(b *t2ser) {
			elems := p.Elems
			if p.K.DropLast && len(elems) > 0 {
				elems = elems[:len(elems)-1]
			}
			if p.K.AddElem && p.ElemDef != nil {
				elems = append(append([]*T2Plan{}, elems...), p.ElemDef)
			}
			if len(elems) == 0 && !p.K.ZeroCount {
				return
			}
			b.w = AppendVarlen(b.w, uint64(len(elems)), p.K.CountForm)
			for _, e := range elems {
				b.node(e, true)
			}
		})
	case PObj:
		s.sized(p, func(b *t2ser) {
			slots := p.Slots
			if p.K.Cut && p.K.CutAt < len(slots) {
				slots = append([]T2Slot{}, slots...)
				for i := p.K.CutAt; i < len(slots); i++ {
					slots[i] = T2Slot{}
				}
			}
			declared := len(slots)
			if p.K.Unknown != nil && p.K.Announce {
				slots = append(append([]T2Slot{}, slots...), T2Slot{Set: true, N: &T2Plan{Kind: PRaw, Raw: p.K.Unknown}})
			}
			noTrim := p.K.NoTrim || (p.K.Unknown != nil && !p.K.Announce)
			lastUsed := 0
			maskPos := 0
			b.w = append(b.w, 0)
			mask := byte(0)
			if p.Variant != 0 || p.K.ExplicitVariant {
				mask |= 1
				b.w = AppendVarlen(b.w, uint64(p.Variant), p.K.VariantForm)
				lastUsed = len(b.w)
			}
			for i, sl := range slots {
				if (i+1)%8 == 0 {
					b.w[maskPos] = mask
					maskPos = len(b.w)
					b.w = append(b.w, 0)
					mask = 0
				}
				if noTrim && i < declared {
					lastUsed = len(b.w)
				}
				if !sl.Set {
					continue
				}
				mask |= 1 << uint((i+1)%8)
				if sl.N != nil {
					b.node(sl.N, false)
				}
				lastUsed = len(b.w)
			}
			b.w[maskPos] = mask
			if noTrim && lastUsed == 0 {
				lastUsed = 1
			}
			b.w = b.w[:lastUsed]
			// sites recorded for trimmed-away parts cannot exist: only Set slots record sites and they extend lastUsed
			if p.K.Unknown != nil && !p.K.Announce {
				b.w = append(b.w, p.K.Unknown...)
			}
			for i := 0; i < p.K.PadMask; i++ {
				b.w = append(b.w, 0)
			}
		})
	}
}

// SerializeOver renders the plan with the declared size at site index k replaced by (bytes remaining in the enclosing
// body after the size field) + 1, without adding any byte; ok=false if that number does not fit the size's form.
func (p *T2Plan) SerializeOver(k int) ([]byte, bool) {
	w, sites := p.Serialize()
	st := sites[k]
	if w[st.Off] >= 254 {
		return nil, false
	}
	over := st.End - (st.Off + 1) + 1
	if over > 253 {
		return nil, false
	}
	out := append([]byte{}, w...)
	out[st.Off] = byte(over)
	return out, true
}

// PlanTop builds the optimal plan of a top-level struct value.
func PlanTop(d *StructDef, v *Value) *T2Plan {
	return planObj(d, v.Fields, 0, &t2Env{}, "")
}

// EncTL2Top is the optimal (minimal) TL2 encoding of a top-level struct value.
func EncTL2Top(d *StructDef, v *Value) []byte {
	w, _ := PlanTop(d, v).Serialize()
	return w
}

// ---------------------------------------------------------------------------------------------------------------
// defaults

func t2Default(t *Type, env *t2Env) *Value {
	switch t.Kind {
	case KTuple:
		v := &Value{}
		if n := env.nat(t.Size); n.known {
			for i := uint32(0); i < n.v && i < 64; i++ {
				v.Elems = append(v.Elems, t2Default(t.Elem, env))
			}
		}
		return v
	case KStruct:
		return &Value{Fields: t2DefaultFields(t.Def, env.args(t))}
	case KUnion:
		return &Value{Fields: t2DefaultFields(t.U.Variants[0], &t2Env{})}
	}
	return &Value{} // numbers 0, "", false, true, empty vector/dictionary, Maybe nothing
}

func t2DefaultFields(d *StructDef, env *t2Env) []*Value {
	fs := make([]*Value, len(d.Fields))
	for i := range d.Fields {
		if d.Fields[i].Mask == nil && d.Fields[i].Name != "_" {
			fs[i] = t2Default(d.Fields[i].T, env)
		}
	}
	return fs
}

// ---------------------------------------------------------------------------------------------------------------
// tolerant decoder

func decT2(r []byte, t *Type, env *t2Env) (*Value, []byte, error) {
	fixed := func(n int) ([]byte, []byte, error) {
		if len(r) < n {
			return nil, r, ErrT2EOF
		}
		return r[:n], r[n:], nil
	}
	switch t.Kind {
	case KInt:
		b, rest, err := fixed(4)
		if err != nil {
			return nil, r, err
		}
		return &Value{I: int64(int32(binary.LittleEndian.Uint32(b)))}, rest, nil
	case KFloat:
		b, rest, err := fixed(4)
		if err != nil {
			return nil, r, err
		}
		return &Value{Fb: uint64(binary.LittleEndian.Uint32(b))}, rest, nil
	case KNat:
		b, rest, err := fixed(4)
		if err != nil {
			return nil, r, err
		}
		return &Value{N: binary.LittleEndian.Uint32(b)}, rest, nil
	case KLong:
		b, rest, err := fixed(8)
		if err != nil {
			return nil, r, err
		}
		return &Value{I: int64(binary.LittleEndian.Uint64(b))}, rest, nil
	case KDouble:
		b, rest, err := fixed(8)
		if err != nil {
			return nil, r, err
		}
		return &Value{Fb: binary.LittleEndian.Uint64(b)}, rest, nil
	case KBool:
		b, rest, err := fixed(1)
		if err != nil {
			return nil, r, err
		}
		return &Value{B: b[0] != 0}, rest, nil
	case KString:
		body, rest, err := sizedBody(r)
		if err != nil {
			return nil, r, err
		}
		return &Value{S: string(body)}, rest, nil
	case KTrue:
		_, _, rest, err := decObject(r, []*StructDef{defNothing}, env)
		return &Value{}, rest, err
	case KStruct:
		if isAlias(t.Def) {
			v, rest, err := decT2(r, t.Def.Fields[0].T, env.args(t))
			if err != nil {
				return nil, r, err
			}
			return &Value{Fields: []*Value{v}}, rest, nil
		}
		_, fs, rest, err := decObject(r, []*StructDef{t.Def}, env.args(t))
		if err != nil {
			return nil, r, err
		}
		return &Value{Fields: fs}, rest, nil
	case KUnion:
		vi, fs, rest, err := decObject(r, t.U.Variants, &t2Env{})
		if err != nil {
			return nil, r, err
		}
		return &Value{Variant: vi, Fields: fs}, rest, nil
	case KMaybe:
		vi, fs, rest, err := decObject(r, []*StructDef{defNothing, defJust(t)}, env)
		if err != nil {
			return nil, r, err
		}
		if vi == 0 {
			return &Value{}, rest, nil
		}
		return &Value{B: true, Elems: fs}, rest, nil
	case KVector, KTuple, KDict, KDictAny:
		body, rest, err := sizedBody(r)
		if err != nil {
			return nil, r, err
		}
		v := &Value{}
		fixedN := -1
		if t.Kind == KTuple {
			if n := env.nat(t.Size); n.known {
				fixedN = int(n.v)
			}
		}
		count := uint64(0)
		if len(body) > 0 {
			if count, body, err = readVarlen(body); err != nil {
				return nil, r, err
			}
		}
		if (t.Kind == KVector || t.Kind == KTuple) && t.Elem.Kind == KBit {
			if fixedN >= 0 && count > uint64(fixedN) {
				count = uint64(fixedN)
			}
			if (count+7)/8 > uint64(len(body)) {
				return nil, r, ErrT2Count
			}
			for i := uint64(0); i < count; i++ {
				v.Elems = append(v.Elems, &Value{B: body[i/8]>>(i%8)&1 != 0})
			}
			for fixedN >= 0 && len(v.Elems) < fixedN && len(v.Elems) < 64 {
				v.Elems = append(v.Elems, &Value{})
			}
			return v, rest, nil
		}
		if fixedN >= 0 {
			if count > uint64(fixedN) {
				count = uint64(fixedN) // surplus elements are ignored
			}
		} else if count > uint64(len(body)) {
			return nil, r, ErrT2Count
		}
		for i := uint64(0); i < count; i++ {
			var e *Value
			if t.Kind == KDict || t.Kind == KDictAny {
				var fs []*Value
				if _, fs, body, err = decObject(body, []*StructDef{defEntry(t)}, env); err != nil {
					return nil, r, err
				}
				e = &Value{Fields: fs}
			} else if e, body, err = decT2(body, t.Elem, env); err != nil {
				return nil, r, err
			}
			v.Elems = append(v.Elems, e)
		}
		for fixedN >= 0 && len(v.Elems) < fixedN && len(v.Elems) < 64 {
			v.Elems = append(v.Elems, t2Default(t.Elem, env)) // missing elements are default
		}
		return v, rest, nil
	}
	return nil, r, fmt.Errorf("decT2: bad kind %d", t.Kind)
}

func sizedBody(r []byte) (body, rest []byte, err error) {
	n, r2, err := readVarlen(r)
	if err != nil {
		return nil, r, err
	}
	if n > uint64(len(r2)) {
		return nil, r, ErrT2Size
	}
	return r2[:n], r2[n:], nil
}

// decObject decodes one object whose variants are given (a struct has one); env is the nat environment of its fields.
func decObject(r []byte, variants []*StructDef, env *t2Env) (variant int, fields []*Value, rest []byte, err error) {
	body, rest, err := sizedBody(r)
	if err != nil {
		return 0, nil, r, err
	}
	mask := byte(0)
	if len(body) > 0 {
		mask, body = body[0], body[1:]
	}
	if mask&1 != 0 {
		var vn uint64
		if vn, body, err = readVarlen(body); err != nil {
			return 0, nil, r, err
		}
		if vn >= uint64(len(variants)) {
			return 0, nil, r, ErrT2Variant
		}
		variant = int(vn)
	}
	d := variants[variant]
	fields = make([]*Value, len(d.Fields))
	for i := range d.Fields {
		f := &d.Fields[i]
		if (i+1)%8 == 0 {
			mask = 0
			if len(body) > 0 {
				mask, body = body[0], body[1:]
			}
		}
		set := mask>>uint((i+1)%8)&1 != 0
		switch {
		case f.Name == "_":
			if set { // reserved field: its type is known, the value is read and discarded
				if _, body, err = decT2(body, f.T, env); err != nil {
					return 0, nil, r, err
				}
			}
		case f.T.Kind == KBit:
			fields[i] = &Value{B: set}
		case f.T.Kind == KTrue && !f.T.Boxed && f.Mask != nil:
			if set {
				fields[i] = &Value{}
			}
		case f.T.Kind == KTrue && !f.T.Boxed, f.T.Kind == KStruct && len(f.T.Def.Fields) == 0:
			// a field whose type is an empty struct carries no information: when its bit is set the value is skipped as an
			// opaque sized value (listed assumption)
			if set {
				if _, body, err = sizedBody(body); err != nil {
					return 0, nil, r, err
				}
			}
			if f.Mask == nil || set {
				fields[i] = &Value{}
			}
		case set:
			if fields[i], body, err = decT2(body, f.T, env); err != nil {
				return 0, nil, r, err
			}
		case f.Mask == nil:
			fields[i] = t2Default(f.T, env)
		}
	}
	// whatever is left in the body belongs to fields this reader does not know: skipped
	return variant, fields, rest, nil
}

// DecTL2Top tolerantly decodes a top-level struct value from the front of r.
func DecTL2Top(r []byte, d *StructDef) (*Value, []byte, error) {
	_, fs, rest, err := decObject(r, []*StructDef{d}, &t2Env{})
	if err != nil {
		return nil, r, err
	}
	return &Value{Fields: fs}, rest, nil
}
