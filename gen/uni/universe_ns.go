package uni

import (
	"sort"
	"strings"
)

// Namespaced universe (C27): exactly the declarations of Universe(level) — same shapes, same tags, same order — but
// distributed over five namespaces and five files so that TL2 whitelists over namespaces are meaningful:
//
//	h1.  helper types without nat parameters that many types reference: st, empty, td, En (e0,e1,e2), Un (v0,v1,v2)
//	h2.  the remaining helpers: ar, om, thru, rec, recm, recmask, big (they reference only built-ins and each other)
//	p.   top-level types (and their private inNN wrappers) that reference no helper at all
//	q.   top-level types that reference h1 helpers only
//	r.   top-level types that reference an h2 helper (possibly h1 too)
//
// Reference structure: p -> built-ins; q -> h1; r -> h1, h2; h2 -> h2; nothing references p, q, r. A whitelist can be
// migrated without leaving a TL1->TL2 reference iff with every namespace it contains every namespace referencing it:
// any subset of {p,q,r}; h2 needs r; h1 needs q and r.
// Universe() itself is untouched: the renaming is applied to the fresh objects a new Universe() call returns.

var NSList = []string{"h1", "h2", "p", "q", "r"}

// NSSchema is a namespaced universe: the schema plus the namespace of every declaration.
type NSSchema struct {
	S    *Schema
	H    *Helpers
	NS   map[*StructDef]string
	List []string // the namespaces in use
}

func UniverseNS(level int) *NSSchema { return universeNS(level, false) }

// UniverseNSFuncs is UniverseNS built from FuncUniverse(level): the functions go to two more namespaces,
//
//	f1.  functions whose result type does not depend on a request field
//	f2.  functions whose result is sized or masked by a request nat field
//
// Functions reference h1/h2 helpers in arguments and results and are referenced by nothing.
func UniverseNSFuncs(level int) *NSSchema { return universeNS(level, true) }

func resultDependsOnRequest(t *Type) bool {
	if t == nil {
		return false
	}
	if t.Kind == KTuple && t.Size.Kind == NField {
		return true
	}
	for _, a := range t.Args {
		if a.Kind == NField {
			return true
		}
	}
	return resultDependsOnRequest(t.Elem) || resultDependsOnRequest(t.Key)
}

func universeNS(level int, withFuncs bool) *NSSchema {
	var s *Schema
	var h *Helpers
	if withFuncs {
		s, h, _ = FuncUniverse(level)
	} else {
		s, h = Universe(level)
	}
	out := &NSSchema{S: s, H: h, NS: map[*StructDef]string{}, List: append([]string{}, NSList...)}
	if withFuncs {
		out.List = append(out.List, "f1", "f2")
	}
	h1 := map[*StructDef]bool{h.St: true, h.Empty: true, h.Td: true}
	for _, v := range h.En.Variants {
		h1[v] = true
	}
	for _, v := range h.Un.Variants {
		h1[v] = true
	}
	h2 := map[*StructDef]bool{h.Ar: true, h.Om: true, h.Thru: true, h.Rec: true, h.RecM: true, h.RecMask: true, h.Big: true}
	// which helper classes does a declaration reference (transitively through private wrappers)?
	var uses func(d *StructDef, seen map[*StructDef]bool) (u1, u2 bool)
	var usesT func(t *Type, seen map[*StructDef]bool) (u1, u2 bool)
	usesT = func(t *Type, seen map[*StructDef]bool) (u1, u2 bool) {
		if t == nil {
			return
		}
		switch t.Kind {
		case KStruct:
			if h1[t.Def] {
				u1 = true
			} else if h2[t.Def] {
				u2 = true
			} else {
				a, b := uses(t.Def, seen)
				u1, u2 = u1 || a, u2 || b
			}
		case KUnion:
			u1 = true // En and Un are the only unions
		}
		a, b := usesT(t.Elem, seen)
		c, d := usesT(t.Key, seen)
		return u1 || a || c, u2 || b || d
	}
	uses = func(d *StructDef, seen map[*StructDef]bool) (u1, u2 bool) {
		if seen[d] {
			return
		}
		seen[d] = true
		for i := range d.Fields {
			a, b := usesT(d.Fields[i].T, seen)
			u1, u2 = u1 || a, u2 || b
		}
		return
	}
	nsOf := func(d *StructDef) string {
		switch {
		case d.IsFunc && resultDependsOnRequest(d.Result):
			return "f2"
		case d.IsFunc:
			return "f1"
		case h1[d]:
			return "h1"
		case h2[d]:
			return "h2"
		}
		u1, u2 := uses(d, map[*StructDef]bool{})
		switch {
		case u2:
			return "r"
		case u1:
			return "q"
		}
		return "p"
	}
	// private wrappers (inNN) must live with the top that uses them: a top's namespace is computed through them
	// (uses() descends), and the wrapper gets the namespace of its own content, which is the same or lower; to keep
	// "nothing references p,q,r" true the wrapper takes the namespace of the top that references it.
	wrapperOf := map[*StructDef]*StructDef{}
	for _, top := range s.Tops {
		for i := range top.Fields {
			t := top.Fields[i].T
			if t.Kind == KStruct && !h1[t.Def] && !h2[t.Def] {
				wrapperOf[t.Def] = top
			}
		}
	}
	for _, d := range s.Structs {
		ns := nsOf(d)
		if top, ok := wrapperOf[d]; ok {
			ns = nsOf(top)
		}
		out.NS[d] = ns
	}
	rename := func(name, ns string) string { return ns + "." + strings.TrimPrefix(name, "u.") }
	for _, d := range s.Structs {
		d.Name = rename(d.Name, out.NS[d])
		if d.Union == nil {
			d.TypeName = rename(d.TypeName, out.NS[d])
		}
	}
	for _, u := range s.Unions {
		u.TypeName = rename(u.TypeName, "h1")
		for _, v := range u.Variants {
			v.TypeName = u.TypeName
		}
	}
	return out
}

// Files prints the namespaced universe as one file per namespace plus common.tl with the built-ins.
func (n *NSSchema) Files() map[string]string {
	out := map[string]string{"common.tl": Prelude}
	var b = map[string]*strings.Builder{}
	for _, ns := range n.List {
		b[ns] = &strings.Builder{}
	}
	inFuncs := map[string]bool{}
	for _, d := range n.S.Structs {
		ns := n.NS[d]
		if d.IsFunc && !inFuncs[ns] {
			inFuncs[ns] = true
			b[ns].WriteString("---functions---\n")
		}
		b[ns].WriteString(FuncDeclText(d) + "\n")
	}
	for ns, sb := range b {
		out[ns+".tl"] = sb.String()
	}
	return out
}

// Names lists the declared constructor names of one namespace (single-type whitelists), sorted.
func (n *NSSchema) Names(ns string) []string {
	var out []string
	for _, d := range n.S.Structs {
		if n.NS[d] == ns {
			out = append(out, d.Name)
		}
	}
	sort.Strings(out)
	return out
}
