package uni

import "sort"

// "Full" values complement the deviation-bounded enumeration: a handful of values per type in which EVERY container
// is non-empty, every Maybe is present, every mask has all meaningful bits set and the leaves differ by position. They
// reach corners that need many simultaneous deviations (two non-empty slices inside two dictionary entries, a later
// element shorter than an earlier one's capacity, ...), which is where buffer-reuse and aliasing bugs live.

type fullGen struct {
	dm     *Domains
	L      int  // container length
	desc   bool // lengths decrease from L down to 1 and wrap (capacity of an earlier element >= length of a later one)
	cnt    int
	lenCnt int
}

func (g *fullGen) pick(n int) int { // index of a non-default alternative, cycling
	if n <= 1 {
		return 0
	}
	g.cnt++
	return 1 + (g.cnt-1)%(n-1)
}

func (g *fullGen) length() int {
	if !g.desc {
		return g.L
	}
	l := g.L - g.lenCnt%g.L
	g.lenCnt++
	return l
}

func (g *fullGen) val(t *Type, env *Env, depth int) *Value {
	dm := g.dm
	switch t.Kind {
	case KInt:
		return &Value{I: dm.Int[g.pick(len(dm.Int))] + int64(g.cnt)*4}
	case KLong:
		return &Value{I: dm.Long[g.pick(len(dm.Long))] + int64(g.cnt)*4}
	case KDouble:
		return &Value{Fb: dm.Double[g.pick(len(dm.Double))]}
	case KFloat:
		return &Value{Fb: dm.Float[g.pick(len(dm.Float))]}
	case KString:
		s := dm.String[g.pick(len(dm.String))]
		g.cnt++
		return &Value{S: s + string(rune('A'+g.cnt%26))}
	case KNat:
		g.cnt++
		return &Value{N: uint32(g.cnt)}
	case KBool:
		g.cnt++
		return &Value{B: g.cnt%2 == 0}
	case KTrue:
		return &Value{}
	case KVector:
		v := &Value{}
		for i, n := 0, g.length(); i < n; i++ {
			v.Elems = append(v.Elems, g.val(t.Elem, env, depth))
		}
		return v
	case KTuple:
		v := &Value{}
		for i, n := 0, int(env.NatVal(t.Size)); i < n && i < 8; i++ {
			v.Elems = append(v.Elems, g.val(t.Elem, env, depth))
		}
		return v
	case KMaybe:
		return &Value{B: true, Elems: []*Value{g.val(t.Elem, env, depth)}}
	case KDict, KDictAny:
		v := &Value{}
		n := g.length()
		if n > len(dictKeysStr) {
			n = len(dictKeysStr)
		}
		for i := 0; i < n; i++ {
			var k *Value
			if t.Kind == KDict || t.Key.Kind == KString {
				k = &Value{S: dictKeysStr[i]}
			} else {
				k = &Value{I: int64(i)}
			}
			v.Elems = append(v.Elems, &Value{Fields: []*Value{k, g.val(t.Elem, env, depth)}})
		}
		return v
	case KStruct:
		if depth > 3 {
			return DefaultValue(t, env)
		}
		return &Value{Fields: g.fields(t.Def, env.args(t), depth+1)}
	case KUnion:
		vi := 0
		if len(t.U.Variants) > 1 {
			g.cnt++
			vi = g.cnt % len(t.U.Variants)
		}
		return &Value{Variant: vi, Fields: g.fields(t.U.Variants[vi], nil, depth+1)}
	}
	panic("fullGen: bad kind")
}

func (g *fullGen) fields(d *StructDef, outer []uint32, depth int) []*Value {
	var cur []*Value
	for i := range d.Fields {
		f := &d.Fields[i]
		env := &Env{Outer: outer, Fields: cur}
		if !env.Present(f) {
			cur = append(cur, nil)
			continue
		}
		if f.T.Kind == KNat {
			u := defNatUse(d, NField, i, 0)
			var nv uint32
			switch {
			case u.size:
				nv = uint32(g.length())
			case len(u.bits) > 0:
				if depth <= 3 { // deeper: leave masks empty so that recursion through masked fields ends
					var bits []int
					for b := range u.bits {
						bits = append(bits, b)
					}
					sort.Ints(bits)
					for _, b := range bits {
						nv |= 1 << uint(b)
					}
				}
			default:
				g.cnt++
				nv = uint32(g.cnt)
			}
			cur = append(cur, &Value{N: nv})
			continue
		}
		cur = append(cur, g.val(f.T, env, depth))
	}
	return cur
}

// FullValues returns the "full" values of a top-level struct (see above): lengths 1, 2, 3 and descending 3,2,1.
func (dm *Domains) FullValues(d *StructDef) []*Value {
	var out []*Value
	for _, g := range []*fullGen{{dm: dm, L: 1}, {dm: dm, L: 2}, {dm: dm, L: 3}, {dm: dm, L: 3, desc: true}} {
		out = append(out, &Value{Fields: g.fields(d, nil, 1)})
	}
	return out
}
