package uni

// UniverseC08X: small extra universe of C08 (built as option sets q0 = TL1 only, q1 = TL2 for everything): directly
// recursive TEMPLATE types with a nat parameter whose self-reference is under a field mask, and holders that pass the
// parameter from a local field, from a constant and under a second mask. The generated JSON reader handles fields with
// nat arguments in a separate last block (absent key + mask bit set => read defaults), where the recursive pointer must be
// allocated first. Universe() is untouched; tags come from a disjoint range.
func UniverseC08X() *Schema {
	b := NewBuilder("u")
	b.next = 0x40000001
	recn := b.Struct("recn", []string{"n"}, F("fm", TNat), F("data", Tup(TInt, OuterN(0))))
	recn.Fields = append(recn.Fields, FM("next", Ref(recn, OuterN(0)), FieldN(0), 0))
	recv := b.Struct("recv", []string{"n"}, F("fm", TNat))
	recv.Fields = append(recv.Fields, FM("next", Ref(recv, OuterN(0)), FieldN(0), 0), FM("tail", Tup(TString, OuterN(0)), FieldN(0), 1))
	top := func(fields ...Field) {
		b.cnt++
		d := b.Struct("x"+string(rune('0'+b.cnt)), nil, fields...)
		b.S.Tops = append(b.S.Tops, d)
	}
	top(F("n", TNat), F("r", Ref(recn, FieldN(0))))
	top(F("r", Ref(recn, Const(2))))
	top(F("n", TNat), F("m", TNat), FM("r", Ref(recn, FieldN(0)), FieldN(1), 1))
	top(F("n", TNat), F("r", Ref(recv, FieldN(0))))
	top(F("n", TNat), F("v", Vec(Ref(recn, FieldN(0)))))
	return b.S
}
