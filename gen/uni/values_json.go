package uni

import (
	"math"
	"strings"
)

// Widened leaf domains of the JSON checks (C05): strings that need escaping, that are not valid UTF-8 and that sit on
// the TL1 length-form boundary; floats that have no JSON number form or lose precision in a careless writer.

// JSONWideStrings: index 0 is the default.
func JSONWideStrings() []string {
	return []string{
		"",
		"a",
		"\"\\\n\t\x00\x1f",       // every escape class: quote, backslash, named and \u00XX controls
		"\u2028",                 // LINE SEPARATOR (valid in JSON, not in JavaScript)
		"\ufffd",                 // a literal REPLACEMENT CHARACTER: valid UTF-8 that looks like a decoding error
		"\xff",                   // not UTF-8
		"\xc3\x28",               // broken 2-byte sequence
		"\xed\xa0\x80",           // UTF-8 encoded surrogate
		"</&>\x7f/é\U0001F600",   // HTML-sensitive, DEL, solidus, 2-byte and 4-byte runes
		AllSpecialJSONBytes(),    // every byte/rune a JSON string writer may special-case, in one string
		strings.Repeat("x", 253), // last length of the 1-byte TL1 length form
		strings.Repeat("y", 254), // first length of the 4-byte TL1 length form
	}
}

// AllSpecialJSONBytes: all C0 controls 0x00-0x1f (so every named escape \b \f \n \r \t and every \u00XX one), DEL, the
// quote, backslash and solidus, the HTML-sensitive < > &, and U+2028 / U+2029. A writer that mangles any one of them
// (valid JSON that reads back as something else) changes the TL1 encoding after the round trip.
func AllSpecialJSONBytes() string {
	var b []byte
	for c := 0; c < 0x20; c++ {
		b = append(b, byte(c))
	}
	return string(b) + "\x7f\"\\/<>&\u2028\u2029"
}

// NaN payloads in the domain.
const (
	NaN64Go   = 0x7ff8000000000001 // what Go's math.NaN() is
	NaN64IEEE = 0x7ff8000000000000 // the default quiet NaN of IEEE 754 (payload 0)
	NaN32IEEE = 0x7fc00000
	NaN32Alt  = 0x7fc00001
)

func JSONWideDoubles() []uint64 {
	return []uint64{
		0,
		0x8000000000000000, // -0
		math.Float64bits(1),
		1,                  // smallest denormal
		0x7fefffffffffffff, // largest finite
		NaN64Go,
		NaN64IEEE,
		math.Float64bits(math.Inf(1)),
		math.Float64bits(math.Inf(-1)),
		math.Float64bits(0.1),
		math.Float64bits(1e21),
		math.Float64bits(9007199254740992), // 2^53
		math.Float64bits(9007199254740994), // the next double
	}
}

func JSONWideFloats() []uint64 {
	f := func(x float32) uint64 { return uint64(math.Float32bits(x)) }
	return []uint64{
		0,
		0x80000000, // -0
		f(1),
		1,          // smallest denormal
		0x7f7fffff, // largest finite
		NaN32IEEE,
		NaN32Alt,
		f(float32(math.Inf(1))),
		f(float32(math.Inf(-1))),
		f(0.1),
		f(1e21),
		f(16777216), // 2^24
		f(16777218),
	}
}

// JSONDomains returns the widened domains.
func JSONDomains() *Domains {
	return &Domains{
		Int:      []int64{0, 1, -1, math.MinInt32, math.MaxInt32},
		Long:     []int64{0, 1, math.MinInt64, math.MaxInt64, 9007199254740993}, // 2^53+1: not a double
		Double:   JSONWideDoubles(),
		Float:    JSONWideFloats(),
		String:   JSONWideStrings(),
		VecLen:   []int{0, 1, 2},
		MaxDepth: 3,
	}
}

// DictKeyVariants returns copies of the top-level value v of d in each of which exactly one dictionary key is
// replaced: string keys by every element of strs, int/long keys by the extreme values of their width. The shared
// enumerator only ever uses the keys "", "a", "b" / 0, 1; this widens the key domain without touching it.
func DictKeyVariants(d *StructDef, v *Value, strs []string) []*Value {
	var out []*Value
	for _, fs := range fieldsKeyVariants(d, v.Fields, strs) {
		out = append(out, &Value{Fields: fs})
	}
	return out
}

func fieldsKeyVariants(d *StructDef, fs []*Value, strs []string) [][]*Value {
	var out [][]*Value
	for i := range d.Fields {
		if i >= len(fs) || fs[i] == nil {
			continue
		}
		for _, nv := range keyVariants(d.Fields[i].T, fs[i], strs) {
			c := append([]*Value(nil), fs...)
			c[i] = nv
			out = append(out, c)
		}
	}
	return out
}

func keyVariants(t *Type, v *Value, strs []string) []*Value {
	var out []*Value
	withElem := func(i int, e *Value) *Value {
		c := *v
		c.Elems = append([]*Value(nil), v.Elems...)
		c.Elems[i] = e
		return &c
	}
	switch t.Kind {
	case KVector, KTuple, KMaybe:
		for i, e := range v.Elems {
			for _, ne := range keyVariants(t.Elem, e, strs) {
				out = append(out, withElem(i, ne))
			}
		}
	case KDict, KDictAny:
		kt := dictKeyType(t)
		for i, e := range v.Elems {
			var keys []*Value
			switch kt.Kind {
			case KString:
				for _, s := range strs {
					keys = append(keys, &Value{S: s})
				}
			case KInt:
				for _, n := range []int64{-1, math.MinInt32, math.MaxInt32} {
					keys = append(keys, &Value{I: n})
				}
			case KLong:
				for _, n := range []int64{-1, math.MinInt64, math.MaxInt64} {
					keys = append(keys, &Value{I: n})
				}
			}
			for _, k := range keys {
				if keyEq(kt, k, e.Fields[0]) {
					continue
				}
				out = append(out, withElem(i, &Value{Fields: []*Value{k, e.Fields[1]}}))
			}
			for _, ne := range keyVariants(t.Elem, e.Fields[1], strs) {
				out = append(out, withElem(i, &Value{Fields: []*Value{e.Fields[0], ne}}))
			}
		}
	case KStruct:
		for _, fs := range fieldsKeyVariants(t.Def, v.Fields, strs) {
			out = append(out, &Value{Fields: fs})
		}
	case KUnion:
		for _, fs := range fieldsKeyVariants(t.U.Variants[v.Variant], v.Fields, strs) {
			out = append(out, &Value{Variant: v.Variant, Fields: fs})
		}
	}
	return out
}
