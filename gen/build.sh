# Sourced by the run scripts of the generated-code checks (after lib.sh).
#   vg_prepare <universe-level> <cfg>...   generate the universe with the CURRENT /repo generator for each option set
#                                          into the scratch module $VERIF_SCRATCH/mod (module "exp")
#   vg_driver <main.go.txt> <out-binary>   build a driver main against it
# Option sets (DESIGN.md §3.2): p0 TL1 only; p1 TL2 for everything; p2 = p1 + []byte variants; p5 = p1 without
# length sanity checks. All with random-filling code. r0..r3: option sets of the registry universe (VG_UNIVERSE=reg).
VG="$VERIF_ROOT/gen"

vg_cfg_flags() {
  case "$1" in
    p0) echo "--generateRandomCode" ;;
    p1) echo "--tl2WhiteList=* --generateRandomCode" ;;
    p2) echo "--tl2WhiteList=* --generateRandomCode --generateByteVersions=*" ;;
    p5) echo "--tl2WhiteList=* --generateRandomCode --checkLengthSanity=false" ;;
    # registry/function universe (VG_UNIVERSE=reg, gen/uni/universe_reg.go): TL2 whitelists covering strict subsets
    r0) echo "--generateRandomCode" ;;
    r1) echo "--tl2WhiteList=w. --generateRandomCode" ;;
    r2) echo "--tl2WhiteList=w.leaf,w.fRes,u.AloneUn,plain --generateRandomCode" ;;
    r3) echo "--tl2WhiteList=* --generateRandomCode --generateByteVersions=*" ;;
    r4) echo "--tl2WhiteList=* --generateRandomCode --split-internal" ;;
    *) echo "unknown cfg $1" >&2; return 2 ;;
  esac
}

vg_prepare() {
  local level="$1"; shift
  local M="$VERIF_SCRATCH/mod"
  mkdir -p "$M/cmd/driver" "$VERIF_SCRATCH/schema"
  vb_overlay_begin; vb_overlay_end
  vb_build_bin cmd/tl2gen "$VERIF_SCRATCH/tl2gen" || return 2
  (cd "$VG" && go build -o "$VERIF_SCRATCH/unigen" ./cmd/unigen) || { echo "HARNESS-ERROR: unigen build failed" >&2; return 2; }
  # VG_UNIVERSE selects another universe builder of gen/uni (default: uni.Universe(level)); "reg" = uni.UniverseReg()
  "$VERIF_SCRATCH/unigen" -level "$level" -universe "${VG_UNIVERSE:-}" -out "$VERIF_SCRATCH/schema/u.tl" >/dev/null || return 2
  cat > "$M/go.mod" <<EOF
module exp

go 1.24.0

require github.com/VKCOM/tl v0.0.0

replace github.com/VKCOM/tl => $VERIF_REPO
EOF
  cp "$VERIF_REPO/go.sum" "$M/go.sum"
  mkdir -p "$M/uni" "$M/vlib" "$M/drv"
  cp "$VG"/uni/*.go "$M/uni/"; cp "$VERIF_ROOT"/vlib/*.go "$M/vlib/"; cp "$VG"/drv/*.go "$M/drv/"
  sed -i 's#"verifgen/uni"#"exp/uni"#' "$M"/drv/*.go 2>/dev/null
  local cfg flags imports=""
  for cfg in "$@"; do
    flags="$(vg_cfg_flags "$cfg")" || return 2
    # shellcheck disable=SC2086
    "$VERIF_SCRATCH/tl2gen" --language=go $flags --outdir="$M/gen_$cfg" --pkgPath="exp/gen_$cfg/tl" \
        --basicPkgPath=github.com/VKCOM/tl/pkg/basictl "$VERIF_SCRATCH/schema/u.tl" > "$VERIF_SCRATCH/gen_$cfg.log" 2>&1 || {
      echo "HARNESS-ERROR: tl2gen rejected the universe for option set $cfg (see below)" >&2
      grep -v "warning" "$VERIF_SCRATCH/gen_$cfg.log" | tail -20 >&2; return 2; }
    mkdir -p "$M/glue_$cfg"
    local bytesimp="" hasbytes=false
    [ -d "$M/gen_$cfg/factory_bytes" ] && { bytesimp="_ \"exp/gen_$cfg/factory_bytes\""; hasbytes=true; }
    local tmpl="$VG/glue.go.tmpl"
    case "$cfg" in p0|r0) tmpl="$VG/glue_notl2.go.tmpl" ;; esac
    sed -e "s/CFG/$cfg/g" -e "s/HASBYTES/$hasbytes/" -e "s#BYTESIMPORT#$bytesimp#" "$tmpl" > "$M/glue_$cfg/glue.go"
    imports="$imports	_ \"exp/glue_$cfg\"
"
  done
  printf 'package main\n\nimport (\n%s)\n' "$imports" > "$M/cmd/driver/glue_imports.go"
}

vg_driver() {
  local M="$VERIF_SCRATCH/mod"
  local f
  for f in "$@"; do
    case "$f" in *.go.txt) cp "$f" "$M/cmd/driver/$(basename "${f%.txt}")" ;; esac
  done
  local out="${!#}"
  (cd "$M" && go build -trimpath -overlay "$VERIF_SCRATCH/overlay.json" -o "$out" ./cmd/driver) || { echo "HARNESS-ERROR: driver build failed" >&2; return 2; }
}
