# Sourced by run scripts that need generated code AND internal/... packages of /repo in ONE binary (C12, C27), after
# lib.sh and gen/build.sh. Everything is written to $VERIF_SCRATCH/inmod/ in the layout of the /repo module and mapped
# into it by overlay entries only (nothing is written to /repo):
#
#   $VERIF_SCRATCH/inmod/internal/zzverif/uni/        copy of gen/uni          -> github.com/VKCOM/tl/internal/zzverif/uni
#   $VERIF_SCRATCH/inmod/internal/zzverif/drv/        copy of gen/drv          -> .../internal/zzverif/drv
#   $VERIF_SCRATCH/inmod/internal/zzverif/gen_<n>/    tl2gen --language=go     -> .../internal/zzverif/gen_<n>/{tl,meta,factory,internal,...}
#   $VERIF_SCRATCH/inmod/internal/zzverif/glue_<n>/   registry adapter (gen/glue.go.tmpl) registering drv.Config{Name:<n>}
#   $VERIF_SCRATCH/inmod/pkg/basictl/                 the generator refreshes its embedded basictl copy here because the
#                                                     package path is inside the repository; it is NOT mapped (the real
#                                                     /repo/pkg/basictl, or its VERIF_EXTRA_OVERLAY replacement, is linked)
#
#   vg_inmodule_tools                      build tl2gen (through the overlay, so VERIF_EXTRA_OVERLAY reaches it) and unigen
#   vg_inmodule_universe <level> [funcs]   write $VERIF_SCRATCH/schema/u.tl (with "funcs": uni.FuncUniverse)
#   vg_inmodule_generate <n> <cfg> <paths> generate Go code for the given schema paths with option set <cfg> under the name <n>
#   vg_prepare_inmodule <level> <cfg>...   the three above for the universe, one generated tree per option set (name = cfg)
#   vg_inmodule_overlay <pkgdir> <pkgname> between vb_overlay_begin and vb_overlay_end: add overlay entries for every file
#                                          under inmod/internal/zzverif plus <pkgdir>/zz_glue_imports_test.go linking all glue
#                                          packages into the harness package <pkgname> (pkgdir relative to the repo root)
VGI_REL=internal/zzverif
VGI_MOD=github.com/VKCOM/tl/internal/zzverif
VGI_NAMES=""

vg_inmodule_tools() {
  mkdir -p "$VERIF_SCRATCH/inmod/$VGI_REL" "$VERIF_SCRATCH/inmod/pkg/basictl" "$VERIF_SCRATCH/schema"
  vb_overlay_begin; vb_overlay_end
  vb_build_bin cmd/tl2gen "$VERIF_SCRATCH/tl2gen" || return 2
  (cd "$VG" && go build -o "$VERIF_SCRATCH/unigen" ./cmd/unigen) || { echo "HARNESS-ERROR: unigen build failed" >&2; return 2; }
  local I="$VERIF_SCRATCH/inmod/$VGI_REL"
  mkdir -p "$I/uni" "$I/drv"
  cp "$VG"/uni/*.go "$I/uni/"; cp "$VG"/drv/*.go "$I/drv/"
  sed -i "s#\"verifgen/uni\"#\"$VGI_MOD/uni\"#; s#\"exp/uni\"#\"$VGI_MOD/uni\"#" "$I"/drv/*.go
}

# vg_inmodule_universe <level> [funcs]: uni.Universe(level), or with "funcs" uni.FuncUniverse(level) (gen/cmd/unigenf)
vg_inmodule_universe() {
  if [ "${2:-}" = funcs ]; then
    (cd "$VG" && go build -o "$VERIF_SCRATCH/unigenf" ./cmd/unigenf) || { echo "HARNESS-ERROR: unigenf build failed" >&2; return 2; }
    "$VERIF_SCRATCH/unigenf" -level "$1" -out "$VERIF_SCRATCH/schema/u.tl" >/dev/null || return 2
  else
    "$VERIF_SCRATCH/unigen" -level "$1" -out "$VERIF_SCRATCH/schema/u.tl" >/dev/null || return 2
  fi
}

vg_inmodule_generate() {
  local name="$1" cfg="$2"; shift 2
  local I="$VERIF_SCRATCH/inmod/$VGI_REL" flags
  flags="$(vg_cfg_flags "$cfg")" || return 2
  # shellcheck disable=SC2086
  "$VERIF_SCRATCH/tl2gen" --language=go $flags --outdir="$I/gen_$name" --pkgPath="$VGI_MOD/gen_$name/tl" \
      --basicPkgPath=github.com/VKCOM/tl/pkg/basictl "$@" > "$VERIF_SCRATCH/gen_$name.log" 2>&1 || {
    echo "HARNESS-ERROR: tl2gen rejected the schema for $name (option set $cfg), see below" >&2
    grep -v "warning" "$VERIF_SCRATCH/gen_$name.log" | tail -20 >&2; return 2; }
  mkdir -p "$I/glue_$name"
  local bytesimp="" hasbytes=false
  [ -d "$I/gen_$name/factory_bytes" ] && { bytesimp="_ \"$VGI_MOD/gen_$name/factory_bytes\""; hasbytes=true; }
  local tmpl="$VG/glue.go.tmpl"
  case "$cfg" in p0|r0) tmpl="$VG/glue_notl2.go.tmpl" ;; esac
  sed -e "s/CFG/$name/g" -e "s/HASBYTES/$hasbytes/" -e "s#BYTESIMPORT#$bytesimp#" -e "s#\"exp/#\"$VGI_MOD/#" "$tmpl" > "$I/glue_$name/glue.go"
  VGI_NAMES="$VGI_NAMES $name"
}

vg_prepare_inmodule() {
  local level="$1"; shift
  vg_inmodule_tools || return 2
  vg_inmodule_universe "$level" || return 2
  local cfg
  for cfg in "$@"; do
    vg_inmodule_generate "$cfg" "$cfg" "$VERIF_SCRATCH/schema/u.tl" || return 2
  done
}

# vg_inmodule_forget <n>: drop a generated tree again (its files and its glue)
vg_inmodule_forget() {
  rm -rf "$VERIF_SCRATCH/inmod/$VGI_REL/gen_$1" "$VERIF_SCRATCH/inmod/$VGI_REL/glue_$1"
  VGI_NAMES="$(printf '%s\n' $VGI_NAMES | grep -vx "$1" | tr '\n' ' ')"
}

# vg_inmodule_trybuild <n>: go build of one generated tree alone (through an overlay of everything generated so far);
# prints the compiler output, returns its status. Leaves $VERIF_SCRATCH/overlay.json overwritten.
vg_inmodule_trybuild() {
  vb_overlay_begin
  vg_inmodule_overlay internal/zzverif/zztrybuild zztrybuild
  vb_overlay_end
  (cd "$VERIF_REPO" && go build -overlay "$VERIF_SCRATCH/overlay.json" "./$VGI_REL/gen_$1/..." 2>&1)
}

vg_inmodule_overlay() {
  local pkgdir="$1" pkgname="$2"
  local root="$VERIF_SCRATCH/inmod" f n imports=""
  while IFS= read -r f; do
    vb_overlay_add "${f#"$root"/}" "$f"
  done < <(find "$root/$VGI_REL" -type f -name '*.go' | sort)
  for n in $(printf '%s\n' $VGI_NAMES | sort -u); do
    imports="$imports	_ \"$VGI_MOD/glue_$n\"
"
  done
  if [ -n "$imports" ]; then
    printf 'package %s\n\nimport (\n%s)\n' "$pkgname" "$imports" > "$VERIF_SCRATCH/zz_glue_imports_test.go.txt"
    vb_overlay_add "$pkgdir/zz_glue_imports_test.go" "$VERIF_SCRATCH/zz_glue_imports_test.go.txt"
  fi
}

# ---------------------------------------------------------------------------------------------------------------------
# The dynamic interpreter (internal/pure/onthefly) as a harness dependency.
#   vg_inmodule_interp_types <pkgdir> <pkgname>                      (between vb_overlay_begin/_end) adds the IValue type
#   vg_inmodule_interp_adapter <pkgdir> <pkgname> <func> <importpath> (between vb_overlay_begin/_end) adds
#                                          func <func>(ins pure.TypeInstance) (IValue, panicText) over that copy of the package
#   vg_inmodule_interp_patched <name> <diff>...  copies the CURRENT interpreter sources (VERIF_EXTRA_OVERLAY replacements
#                                          honoured) to inmod/internal/zzverif/<name>/ and applies each diff (made with
#                                          diff -u a/internal/pure/onthefly/... b/...) that still applies; the list of
#                                          applied diffs (basenames) is left in $VGI_PATCHES_APPLIED, the rejected in
#                                          $VGI_PATCHES_REJECTED. Import path: $VGI_MOD/<name> (package onthefly).
vg_inmodule_interp_types() {
  sed -e "s/PKGNAME/$2/" "$VG/ivalue.go.tmpl" > "$VERIF_SCRATCH/zz_ivalue_$2.go.txt"
  vb_overlay_add "$1/zz_ivalue_test.go" "$VERIF_SCRATCH/zz_ivalue_$2.go.txt"
}

vg_inmodule_interp_adapter() {
  sed -e "s/PKGNAME/$2/" -e "s/FUNCNAME/$3/" -e "s#IMPORTPATH#$4#" "$VG/iadapter.go.tmpl" > "$VERIF_SCRATCH/zz_iadapter_$2_$3.go.txt"
  vb_overlay_add "$1/zz_iadapter_$3_test.go" "$VERIF_SCRATCH/zz_iadapter_$2_$3.go.txt"
}

vg_inmodule_interp_patched() {
  local name="$1"; shift
  local W="$VERIF_SCRATCH/patchwork_$name" rel=internal/pure/onthefly f pair d
  rm -rf "$W"; mkdir -p "$W/$rel"
  for f in "$VERIF_REPO/$rel"/*.go; do
    case "$f" in *_test.go) ;; *) cp "$f" "$W/$rel/" ;; esac
  done
  if [ -n "${VERIF_EXTRA_OVERLAY:-}" ]; then
    local IFS=';'
    for pair in $VERIF_EXTRA_OVERLAY; do
      case "${pair%%=*}" in "$rel"/*.go) cp "${pair#*=}" "$W/${pair%%=*}" ;; esac
    done
    unset IFS
  fi
  VGI_PATCHES_APPLIED=""; VGI_PATCHES_REJECTED=""
  for d in "$@"; do
    if (cd "$W" && patch -p1 --forward -s --dry-run < "$d" >/dev/null 2>&1) && (cd "$W" && patch -p1 --forward -s < "$d" >/dev/null 2>&1); then
      VGI_PATCHES_APPLIED="$VGI_PATCHES_APPLIED $(basename "$d")"
    else
      VGI_PATCHES_REJECTED="$VGI_PATCHES_REJECTED $(basename "$d")"
      echo "NOTE: $(basename "$d") no longer applies to the current interpreter sources; the patched copy is built without it" >&2
    fi
  done
  mkdir -p "$VERIF_SCRATCH/inmod/$VGI_REL/$name"
  cp "$W/$rel"/*.go "$VERIF_SCRATCH/inmod/$VGI_REL/$name/"
  rm -f "$VERIF_SCRATCH/inmod/$VGI_REL/$name"/*.orig "$VERIF_SCRATCH/inmod/$VGI_REL/$name"/*.rej
  export VGI_PATCHES_APPLIED VGI_PATCHES_REJECTED
}
