package drv

import (
	"reflect"
	"strings"
)

// Concrete returns the addressable struct value behind a generated object (unwrapping the TL2-stub adapters).
func Concrete(o any) reflect.Value {
	v := reflect.ValueOf(o)
	for {
		switch v.Kind() {
		case reflect.Interface, reflect.Pointer:
			if v.IsNil() {
				return reflect.Value{}
			}
			v = v.Elem()
			continue
		case reflect.Struct:
			// adapter structs embed the generated interface as their only field
			if v.NumField() == 1 && v.Type().Field(0).Anonymous && v.Field(0).Kind() == reflect.Interface {
				v = v.Field(0)
				continue
			}
		}
		return v
	}
}

// GoFieldName is the exported Go name the generator gives to a TL field name (first letter upper-cased, the
// letter after each underscore upper-cased and the underscore dropped).
func GoFieldName(tl string) string {
	parts := strings.Split(tl, "_")
	var b strings.Builder
	for _, p := range parts {
		if p == "" {
			continue
		}
		b.WriteString(strings.ToUpper(p[:1]) + p[1:])
	}
	return b.String()
}
