// Package drv is the generic driver for generated Go code: one interface for every generated object of every option
// set, reached through the generated meta/factory registry. It is copied into the scratch module next to the
// generated packages; it never touches /repo.
package drv

import (
	"fmt"
	"sort"
	"strings"

	"github.com/VKCOM/tl/pkg/basictl"
)

// Object has exactly the method set of the generated meta.Object.
type Object interface {
	TLName() string
	TLTag() uint32
	String() string
	FillRandom(rg *basictl.RandGenerator)
	ReadTL1(w []byte) ([]byte, error)
	ReadTL1Boxed(w []byte) ([]byte, error)
	WriteTL1General(w []byte) ([]byte, error)
	WriteTL1BoxedGeneral(w []byte) ([]byte, error)
	MarshalJSON() ([]byte, error)
	UnmarshalJSON([]byte) error
	ReadJSONGeneral(jctx *basictl.JSONReadContext, in *basictl.JsonLexer) error
	WriteJSONGeneral(jctx *basictl.JSONWriteContext, w []byte) ([]byte, error)
	ReadTL2(r []byte, tctx *basictl.TL2ReadContext) ([]byte, error)
	WriteTL2(w []byte, tctx *basictl.TL2WriteContext) []byte
}

// Function has the method set of the generated meta.Function.
type Function interface {
	Object
	FillRandomResultTL1(rg *basictl.RandGenerator, w []byte) ([]byte, error)
	ReadResultTL1WriteResultJSON(jctx *basictl.JSONWriteContext, r []byte, w []byte) ([]byte, []byte, error)
	ReadResultJSONWriteResultTL1(jctx *basictl.JSONReadContext, r []byte, w []byte) ([]byte, []byte, error)
	ReadResultTL1WriteResultTL2(tctx *basictl.TL2WriteContext, r []byte, w []byte) ([]byte, []byte, error)
	ReadResultTL2WriteResultTL1(tctx *basictl.TL2ReadContext, r []byte, w []byte) ([]byte, []byte, error)
	ReadResultTL2WriteResultJSON(tctx *basictl.TL2ReadContext, jctx *basictl.JSONWriteContext, r []byte, w []byte) ([]byte, []byte, error)
	ReadResultJSONWriteResultTL2(jctx *basictl.JSONReadContext, tctx *basictl.TL2WriteContext, r []byte, w []byte) ([]byte, []byte, error)
}

// Item is one registry entry of one option set.
type Item struct {
	Name       string
	Tag        uint32
	HasTL1     bool
	HasTL2     bool
	IsFunction bool
	Annot      map[string]bool
	New        func() Object
	NewBytes   func() Object
	NewFunc    func() Function
	ByTag      func(tag uint32) (name string, ok bool) // registry lookup by tag
}

// Config is the registry of one option set.
type Config struct {
	Name     string
	HasBytes bool // generated with []byte variants (Item.NewBytes differs from Item.New)
	Items  []*Item
	byName map[string]*Item
	// ByTag / ByName are the generated lookups themselves (C17 checks them against Items).
	LookupTag  func(tag uint32) (string, bool)
	LookupName func(name string) (uint32, bool)
}

func (c *Config) Item(name string) *Item { return c.byName[name] }

var configs = map[string]*Config{}

// Register is called by the generated glue package of each option set.
func Register(c *Config) {
	c.byName = map[string]*Item{}
	for _, it := range c.Items {
		c.byName[it.Name] = it
	}
	configs[c.Name] = c
}

// Configs returns the registered option sets in name order.
func Configs() []*Config {
	var names []string
	for n := range configs {
		names = append(names, n)
	}
	sort.Strings(names)
	var out []*Config
	for _, n := range names {
		out = append(out, configs[n])
	}
	return out
}

// Call runs f, converting a panic into text.
func Call(f func()) (p string) {
	defer func() {
		if x := recover(); x != nil {
			p = strings.TrimSpace(fmt.Sprint(x))
			if p == "" {
				p = "panic"
			}
		}
	}()
	f()
	return ""
}

// ReadTL1 decodes b into o (bare or boxed); returns consumed length (-1 on error), error text and panic text.
func ReadTL1(o Object, b []byte, boxed bool) (consumed int, errText, panicText string) {
	consumed = -1
	panicText = Call(func() {
		var rest []byte
		var err error
		if boxed {
			rest, err = o.ReadTL1Boxed(b)
		} else {
			rest, err = o.ReadTL1(b)
		}
		if err != nil {
			errText = err.Error()
			return
		}
		consumed = len(b) - len(rest)
	})
	return
}

// WriteTL1 encodes o (bare or boxed).
func WriteTL1(o Object, boxed bool) (out []byte, errText, panicText string) {
	panicText = Call(func() {
		var err error
		if boxed {
			out, err = o.WriteTL1BoxedGeneral(nil)
		} else {
			out, err = o.WriteTL1General(nil)
		}
		if err != nil {
			errText = err.Error()
			out = nil
		}
	})
	return
}

// ReadTL2 decodes b into o.
func ReadTL2(o Object, b []byte) (consumed int, errText, panicText string) {
	consumed = -1
	panicText = Call(func() {
		rest, err := o.ReadTL2(b, &basictl.TL2ReadContext{})
		if err != nil {
			errText = err.Error()
			return
		}
		consumed = len(b) - len(rest)
	})
	return
}

// WriteTL2 encodes o; ctx may be nil or a reused context.
func WriteTL2(o Object, ctx *basictl.TL2WriteContext) (out []byte, panicText string) {
	panicText = Call(func() { out = o.WriteTL2(nil, ctx) })
	return
}

// WriteJSON renders o.
func WriteJSON(o Object, jctx *basictl.JSONWriteContext) (out []byte, errText, panicText string) {
	panicText = Call(func() {
		var err error
		if jctx == nil {
			jctx = &basictl.JSONWriteContext{}
		}
		out, err = o.WriteJSONGeneral(jctx, nil)
		if err != nil {
			errText = err.Error()
			out = nil
		}
	})
	return
}

// ReadJSON parses text into o.
func ReadJSON(o Object, text []byte, jctx *basictl.JSONReadContext) (errText, panicText string) {
	panicText = Call(func() {
		if jctx == nil {
			jctx = &basictl.JSONReadContext{}
		}
		lex := &basictl.JsonLexer{Data: text}
		if err := o.ReadJSONGeneral(jctx, lex); err != nil {
			errText = err.Error()
			return
		}
		lex.Consumed()
		if err := lex.Error(); err != nil {
			errText = "trailing: " + err.Error()
		}
	})
	return
}
