# Sourced after gen/build.sh by the TL2-side checks (C03, C04, C13, C11): vg_tl2x <cfg>... generates the extra universe
# uni.UniverseTL2X() (second/third mask byte shapes, union with a 9-field variant) as additional option sets into the
# scratch module prepared by vg_prepare: x1 = flags of p1, x2 = flags of p2 (with []byte variants).
vg_tl2x() {
  local M="$VERIF_SCRATCH/mod" cfg base flags imports=""
  (cd "$VG" && go build -o "$VERIF_SCRATCH/unigen_tl2x" ./cmd/unigen_tl2x) || { echo "HARNESS-ERROR: unigen_tl2x build failed" >&2; return 2; }
  "$VERIF_SCRATCH/unigen_tl2x" -out "$VERIF_SCRATCH/schema/x.tl" >/dev/null || return 2
  for cfg in "$@"; do
    base="p${cfg#x}"
    flags="$(vg_cfg_flags "$base")" || return 2
    # shellcheck disable=SC2086
    "$VERIF_SCRATCH/tl2gen" --language=go $flags --outdir="$M/gen_$cfg" --pkgPath="exp/gen_$cfg/tl" \
        --basicPkgPath=github.com/VKCOM/tl/pkg/basictl "$VERIF_SCRATCH/schema/x.tl" > "$VERIF_SCRATCH/gen_$cfg.log" 2>&1 || {
      echo "HARNESS-ERROR: tl2gen rejected the tl2x universe for option set $cfg (see below)" >&2
      grep -v "warning" "$VERIF_SCRATCH/gen_$cfg.log" | tail -20 >&2; return 2; }
    mkdir -p "$M/glue_$cfg"
    local bytesimp="" hasbytes=false
    [ -d "$M/gen_$cfg/factory_bytes" ] && { bytesimp="_ \"exp/gen_$cfg/factory_bytes\""; hasbytes=true; }
    sed -e "s/CFG/$cfg/g" -e "s/HASBYTES/$hasbytes/" -e "s#BYTESIMPORT#$bytesimp#" "$VG/glue.go.tmpl" > "$M/glue_$cfg/glue.go"
    imports="$imports	_ \"exp/glue_$cfg\"
"
  done
  printf 'package main\n\nimport (\n%s)\n' "$imports" > "$M/cmd/driver/glue_imports_x.go"
}

# vg_tl2n <cfg>...: TL2-NATIVE universe uni.UniverseTL2N() (TL2 source text: reserved `_:T` fields at every position of a
# wide struct, packed bit arrays, optional empty struct) as option sets n1 (plain) / n2 (with []byte variants).
# Must run after vg_tl2x (it appends to the same import file).
vg_tl2n() {
  local M="$VERIF_SCRATCH/mod" cfg flags imports=""
  "$VERIF_SCRATCH/unigen_tl2x" -native -out "$VERIF_SCRATCH/schema/n.tl2" >/dev/null || return 2
  for cfg in "$@"; do
    flags="--tl2WhiteList=* --generateRandomCode"
    [ "$cfg" = n2 ] && flags="$flags --generateByteVersions=*"
    # shellcheck disable=SC2086
    "$VERIF_SCRATCH/tl2gen" --language=go $flags --outdir="$M/gen_$cfg" --pkgPath="exp/gen_$cfg/tl" \
        --basicPkgPath=github.com/VKCOM/tl/pkg/basictl "$VERIF_SCRATCH/schema/n.tl2" > "$VERIF_SCRATCH/gen_$cfg.log" 2>&1 || {
      echo "HARNESS-ERROR: tl2gen rejected the TL2-native universe for option set $cfg (see below)" >&2
      grep -v "warning" "$VERIF_SCRATCH/gen_$cfg.log" | tail -20 >&2; return 2; }
    mkdir -p "$M/glue_$cfg"
    local bytesimp="" hasbytes=false
    [ -d "$M/gen_$cfg/factory_bytes" ] && { bytesimp="_ \"exp/gen_$cfg/factory_bytes\""; hasbytes=true; }
    sed -e "s/CFG/$cfg/g" -e "s/HASBYTES/$hasbytes/" -e "s#BYTESIMPORT#$bytesimp#" "$VG/glue.go.tmpl" > "$M/glue_$cfg/glue.go"
    imports="$imports	_ \"exp/glue_$cfg\"
"
  done
  printf 'package main\n\nimport (\n%s)\n' "$imports" > "$M/cmd/driver/glue_imports_n.go"
}
