# Sourced by checks/C19/run and checks/C20/run after lib.sh.
# pc_instrument: writes step-counting copies of tlparser_code.go and tlparser_tl2_code.go (taken from the current
# working tree, or from VERIF_EXTRA_OVERLAY when a breaking change replaces one of them) into $VERIF_SCRATCH and
# registers them in the overlay. /repo is never touched. If an anchor is missing the file is used unmodified and the
# harness reports step_budget_instrumentation=false (the watchdog remains).
_pc_src() { # <rel> -> effective source path (honours VERIF_EXTRA_OVERLAY)
  local rel="$1" pair IFS=';'
  for pair in ${VERIF_EXTRA_OVERLAY:-}; do
    if [ "${pair%%=*}" = "$rel" ]; then echo "${pair#*=}"; return; fi
  done
  echo "$VERIF_REPO/$rel"
}
_pc_set_extra() { # <rel> <newpath>: replace the pair for <rel> in VERIF_EXTRA_OVERLAY
  local rel="$1" new="$2" pair out="" IFS=';'
  for pair in ${VERIF_EXTRA_OVERLAY:-}; do
    [ -z "$pair" ] && continue
    if [ "${pair%%=*}" = "$rel" ]; then pair="$rel=$new"; fi
    out="${out:+$out;}$pair"
  done
  export VERIF_EXTRA_OVERLAY="$out"
}
_pc_one() { # <rel> <sed-script> <expected anchor count>
  local rel="$1" script="$2" want="$3" src dst n
  src="$(_pc_src "$rel")"
  mkdir -p "$VERIF_SCRATCH/instr"
  dst="$VERIF_SCRATCH/instr/$(basename "$rel")"
  sed -E "$script" "$src" > "$dst" || return 2
  n=$(grep -c 'verifSteps\|verifNewStepCounter' "$dst")
  if [ "$n" -ne "$want" ]; then
    echo "NOTE: step instrumentation anchors not found in $rel ($n of $want); using the file unmodified" >&2
    cp "$src" "$dst"
  fi
  if [ "$src" != "$VERIF_REPO/$rel" ]; then _pc_set_extra "$rel" "$dst"; else vb_overlay_add "$rel" "$dst"; fi
}
pc_instrument() {
  _pc_one internal/tlast/tlparser_code.go '
    s/^type tokenIterator struct \{$/&\n\tverifSteps *verifStepCounter/
    s/^func \(it \*tokenIterator\) (front|popFront)\(\) token \{$/&\n\tit.verifSteps.step()/
    s/^func \(it \*tokenIterator\) count\(\) int \{$/&\n\tit.verifSteps.step()/
    s/tokenIterator\{tokens: allTokens\}/tokenIterator{tokens: allTokens, verifSteps: verifNewStepCounter(file, len(allTokens))}/
  ' 5 || return 2
  _pc_one internal/tlast/tlparser_tl2_code.go '
    s/tokenIterator\{tokens: allTokens\}/tokenIterator{tokens: allTokens, verifSteps: verifNewStepCounter(file, len(allTokens))}/
  ' 1 || return 2
}
