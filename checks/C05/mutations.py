#!/usr/bin/env python3
# C05/C06 breaking changes (c05m1..6, c06m1..6) and candidate fixes (fix2, fixDict+fixDictB, fixG2, fixG4); usage:
#   VERIF_EXTRA_OVERLAY="$(python3 checks/C05/mutations.py c06m3 | tr "\n" ";")" ./vcheck C06 quick
# copies go to /var/tmp/c0506-mut/ (remove afterwards); they are made from the CURRENT /repo files on every call.
# builds mutated copies of /repo files under /var/tmp/c0506-mut/<name>/ and prints the VERIF_EXTRA_OVERLAY value
import os,sys
R='/repo/'
def mut(name, rel, edits):
    return lambda: _mut(name, rel, edits)
def _mut(name, rel, edits):
    s=open(R+rel).read()
    for old,new,cnt in edits:
        assert s.count(old)>=1, (name, old[:60], s.count(old))
        s=s.replace(old,new,cnt)
    d='/var/tmp/c0506-mut/'+name; os.makedirs(d,exist_ok=True)
    p=d+'/'+os.path.basename(rel); open(p,'w').write(s)
    return rel+'='+p
M={}
# C05 m1: dictionary keys appended raw instead of through the JSON string writer (map-backed string-key dictionaries)
M['c05m1']=mut('c05m1','internal/puregen/gengo/qt_dict.qtpl.go',[('        w = basictl.JSONWriteString(w, key)\n','        w = append(append(append(w, \'"\'), key...), \'"\')\n',1)])
# C05 m2: special float branch dropped in the float32 writer only
M['c05m2']=mut('c05m2','pkg/basictl/basictl.go',[('''func JSONWriteFloat32(w []byte, v float32) []byte {
	if ws, ok := jsonWriteFloatSpecial(w, float64(v)); ok {
		return ws
	}
''','''func JSONWriteFloat32(w []byte, v float32) []byte {
''',1)])
# C05 m3: comma hoisted out of the mask test: trailing comma when the last masked field is absent
M['c05m3']=mut('c05m3','internal/puregen/gengo/qt_struct.qtpl.go',[
 ('''		if field.MaskTL2Bit() != nil {
			qw422016.N().S(`            if item.`)
			qw422016.N().S(field.TL2MaskForOP("&"))
			qw422016.N().S(` != 0 {
`)
		} else if field.FieldMask() != nil {
			qw422016.N().S(`            if `)
			qw422016.N().S(struct_.wr.formatNatArg(struct_.Fields, *field.FieldMask()))''','''		if field.MaskTL2Bit() != nil {
			qw422016.N().S(`            w = basictl.JSONAddCommaIfNeeded(w)
            if item.`)
			qw422016.N().S(field.TL2MaskForOP("&"))
			qw422016.N().S(` != 0 {
`)
		} else if field.FieldMask() != nil {
			qw422016.N().S(`            w = basictl.JSONAddCommaIfNeeded(w)
            if `)
			qw422016.N().S(struct_.wr.formatNatArg(struct_.Fields, *field.FieldMask()))''',1),
 ('''		qw422016.N().S(`                w = basictl.JSONAddCommaIfNeeded(w)
                w = append(w, `)
		qw422016.N().S("`")
		qw422016.N().S(`"`)
		qw422016.E().S(field.OriginalName())''','''		if field.MaskTL2Bit() == nil && field.FieldMask() == nil {
			qw422016.N().S(`                w = basictl.JSONAddCommaIfNeeded(w)
`)
		}
		qw422016.N().S(`                w = append(w, `)
		qw422016.N().S("`")
		qw422016.N().S(`"`)
		qw422016.E().S(field.OriginalName())''',1)])
# C05 m4: 0x1f treated as a safe character by the string writer
M['c05m4']=mut('c05m4','pkg/basictl/basictl.go',[('\t\t\tif safeSet[b] {\n','\t\t\tif safeSet[b] || b == 0x1f {\n',1)])
# C05 m5: +Inf written as "Inf" (round-trips through strconv, but is not the documented form)
M['c05m5']=mut('c05m5','pkg/basictl/basictl.go',[('"\\"+Inf\\""','"\\"Inf\\""',1)])
# C05 m6: base64 fallback of the string writer uses the URL alphabet
M['c05m6']=mut('c05m6','pkg/basictl/basictl.go',[('''		w = alloc(w, base64.StdEncoding.EncodedLen(len(s)))
		base64.StdEncoding.Encode(w[beforeAllocation:], []byte(s))''','''		w = alloc(w, base64.URLEncoding.EncodedLen(len(s)))
		base64.URLEncoding.Encode(w[beforeAllocation:], []byte(s))''',1)])

# candidate fixes (proposed-fix-N); those whose defect has been fixed in /repo meanwhile no longer apply (assertion)
M['fix1']=mut('fix1','internal/puregen/gengo/qt_struct.qtpl.go',[
 ('} else if emptyCond != "" && struct_.wr.OriginTL2() {','} else if emptyCond != "" && (struct_.wr.OriginTL2() || field.recursive) {',2),
 ('} else if emptyCond != "" && !struct_.wr.OriginTL2() {','} else if emptyCond != "" && !(struct_.wr.OriginTL2() || field.recursive) {',2)])
M['fix2']=mut('fix2','internal/puregen/gengo/type_rw_primitive.go',[
 ('\treturn fmt.Sprintf("%s != 0", addAsterisk(ref, val))\n}\n\nfunc (trw *TypeRWPrimitive) typeJSONWritingCode','\tif trw.canonicalType == "float32" || trw.canonicalType == "float64" {\n\t\tv := addAsterisk(ref, val)\n\t\treturn fmt.Sprintf("(%s != 0 || 1/%s < 0)", v, v) // -0 is not the empty value: it does not read back as +0\n\t}\n\treturn fmt.Sprintf("%s != 0", addAsterisk(ref, val))\n}\n\nfunc (trw *TypeRWPrimitive) typeJSONWritingCode',1)])
M['fix3']=mut('fix3','internal/puregen/gengo/qt_dict.qtpl.go',[
 ('(*vec)[index].Key = append((*vec)[index].Key[:0], in.UnsafeFieldName(true)...)','(*vec)[index].Key = append((*vec)[index].Key[:0], in.UnsafeFieldName(false)...)',1),
 ('qw422016.N().S(`            key := in.UnsafeFieldName(true)','qw422016.N().S(`            key := in.UnsafeFieldName(false)',1)])

# C06 breaking changes
M['c06m1']=mut('c06m1','internal/puregen/gengo/qt_struct.qtpl.go',[("""			qw422016.N().S(`":
                if prop`)
			qw422016.N().S(field.goName)
			qw422016.N().S(`Presented {
                    return `)""","""			qw422016.N().S(`":
                if false && prop`)
			qw422016.N().S(field.goName)
			qw422016.N().S(`Presented {
                    return `)""",1)])
M['c06m2']=mut('c06m2','internal/puregen/gengo/qt_helpers.qtpl.go',[("""	if okFound && !okValue && valueSlice != nil {
		return false, nil, ErrorInvalidJSON(typeName, "field 'ok' is false but field 'value' is presented in maybe")
	}""","""	if okFound && !okValue && valueSlice != nil {
		okValue = true
	}""",1)])
M['c06m3']=mut('c06m3','internal/puregen/gengo/qt_struct.qtpl.go',[("\t\t\tcurField = ancestor\n","\t\t\tbreak // mutation: the mask of the mask is not told\n",1)])
M['c06m4']=mut('c06m4','internal/puregen/gengo/qt_brackets.qtpl.go',[("        if uint32(index) != nat_n {","        if uint32(index) > nat_n {",1)])
M['c06m5']=mut('c06m5','internal/puregen/gengo/qt_helpers.qtpl.go',[("""			return "", nil, ErrorInvalidJSON(typeName, "unexpected field '"+key+"' in union")""","""			in.SkipRecursive()""",1)])
M['c06m6']=mut('c06m6','internal/puregen/gengo/qt_helpers.qtpl.go',[("		value, err := strconv.ParseInt(src, 10, 64)","		value, err := strconv.ParseInt(src, 10, 63)",1)])

# candidate fixes for C06 findings
M['fixG2']=mut('fixG2','internal/puregen/gengo/qt_union.qtpl.go',[("""	qw422016.N().S(natArgsDecl)
	qw422016.N().S(`) error {
    _tag,`)""","""	qw422016.N().S(natArgsDecl)
	qw422016.N().S(`) error {
    if in == nil { // absent value: the empty value of a union is its first constructor with empty fields
        item.Reset()
        return nil
    }
    _tag,`)""",1)])

M['fixG4']=mut('fixG4','internal/puregen/gengo/qt_struct.qtpl.go',[
 ('} else if emptyCond != "" && struct_.wr.OriginTL2() {','} else if emptyCond != "" && (struct_.wr.OriginTL2() || field.recursive) {',2),
 ('} else if emptyCond != "" && !struct_.wr.OriginTL2() {','} else if emptyCond != "" && !(struct_.wr.OriginTL2() || field.recursive) {',2),
 ("""		qw422016.N().S(`...)
                `)
		qw422016.N().S(field.t.TypeJSONWritingCode(""","""		qw422016.N().S(`...)
                `)
		qw422016.N().S(field.EnsureRecursive(bytesVersion, directImports, struct_.wr.ins))
		qw422016.N().S(field.t.TypeJSONWritingCode(""",1)])

# candidate fix for C06-G1 + C05-F5 (map-backed dictionaries): reader accepts the documented pair-array form; the writer of
# string-keyed dictionaries falls back to it when a key is not valid UTF-8
_dict_reader_old = """    data := *m

    if in != nil {
        in.Delim('{')
        if !in.Ok() {
            return `)"""
_dict_reader_new = """    data := *m

    if in != nil {
        if in.IsDelim('[') { // documented alternative form: array of {"key":...,"value":...} pairs
            in.Delim('[')
            for !in.IsDelim(']') {
                var key `)
		qw422016.N().S(keyTypeString)
		qw422016.N().S(`
                var value `)
		qw422016.N().S(valueTypeString)
		qw422016.N().S(`
                var keyFound, valueFound bool
                in.Delim('{')
                if !in.Ok() {
                    return `)
		qw422016.N().S(tuple.wr.gen.InternalPrefix())
		qw422016.N().S(`ErrorInvalidJSON(`)
		qw422016.N().Q(typeString)
		qw422016.N().S(`, "expected json object with key and value")
                }
                for !in.IsDelim('}') {
                    name := in.UnsafeFieldName(true)
                    in.WantColon()
                    switch name {
                    case "key":
                        if keyFound {
                            return `)
		qw422016.N().S(tuple.wr.gen.InternalPrefix())
		qw422016.N().S(`ErrorInvalidJSONWithDuplicatingKeys(`)
		qw422016.N().Q(typeString)
		qw422016.N().S(`, "key")
                        }
                        keyFound = true
                        `)
		qw422016.N().S(tuple.dictKeyField.t.TypeJSON2ReadingCode(bytesVersion, directImports, tuple.wr.ins, "in", "key", tuple.wr.formatNatArgs(nil, tuple.dictKeyField.NatArgs()), false))
		qw422016.N().S(`
                    case "value":
                        if valueFound {
                            return `)
		qw422016.N().S(tuple.wr.gen.InternalPrefix())
		qw422016.N().S(`ErrorInvalidJSONWithDuplicatingKeys(`)
		qw422016.N().Q(typeString)
		qw422016.N().S(`, "value")
                        }
                        valueFound = true
                        `)
		qw422016.N().S(tuple.dictValueField.t.TypeJSON2ReadingCode(bytesVersion, directImports, tuple.wr.ins, "in", "value", tuple.formatValueNatArgs(), false))
		qw422016.N().S(`
                    default:
                        return `)
		qw422016.N().S(tuple.wr.gen.InternalPrefix())
		qw422016.N().S(`ErrorInvalidJSONExcessElement(`)
		qw422016.N().Q(typeString)
		qw422016.N().S(`, name)
                    }
                    in.WantComma()
                }
                in.Delim('}')
                data[key] = value
                in.WantComma()
            }
            in.Delim(']')
            if !in.Ok() {
                return `)
		qw422016.N().S(tuple.wr.gen.InternalPrefix())
		qw422016.N().S(`ErrorInvalidJSON(`)
		qw422016.N().Q(typeString)
		qw422016.N().S(`, "expected json array's end")
            }
            return nil
        }
        in.Delim('{')
        if !in.Ok() {
            return `)"""
_dict_writer_old = """			qw422016.N().S(`    sort.Strings(keys)
    w = append(w, '{')
    for _, key := range keys {
        value := m[key]
        w = basictl.JSONAddCommaIfNeeded(w)
        w = basictl.JSONWriteString(w, key)
        w = append(w, ':')
        `)"""
_dict_writer_new = """			qw422016.N().S(`    sort.Strings(keys)
    for _, key := range keys {
        if !basictl.JSONStringIsText(key) { // such a key cannot be a JSON object key: use the pair-array form
            w = append(w, '[')
            for _, key := range keys {
                value := m[key]
                w = basictl.JSONAddCommaIfNeeded(w)
                w = append(w, `)
			qw422016.N().S("`")
			qw422016.N().S(`{"key":`)
			qw422016.N().S("`")
			qw422016.N().S(`...)
                w = basictl.JSONWriteString(w, key)
                w = append(w, `)
			qw422016.N().S("`")
			qw422016.N().S(`,"value":`)
			qw422016.N().S("`")
			qw422016.N().S(`...)
                `)
			qw422016.N().S(tuple.dictValueField.t.TypeJSONWritingCode(bytesVersion, directImports, tuple.wr.ins, "value", tuple.formatValueNatArgs(), false, tuple.dictValueField.t.hasErrorInWriteMethods))
			qw422016.N().S(`
                w = append(w, '}')
            }
`)
			if writeElementNeedsError {
				qw422016.N().S(`            return append(w, ']'), nil
`)
			} else {
				qw422016.N().S(`            return append(w, ']')
`)
			}
			qw422016.N().S(`        }
    }
    w = append(w, '{')
    for _, key := range keys {
        value := m[key]
        w = basictl.JSONAddCommaIfNeeded(w)
        w = basictl.JSONWriteString(w, key)
        w = append(w, ':')
        `)"""
M['fixDict']=mut('fixDict','internal/puregen/gengo/qt_dict.qtpl.go',[(_dict_reader_old,_dict_reader_new,1),(_dict_writer_old,_dict_writer_new,1),
   ("qw422016.N().S(`            key := in.UnsafeFieldName(true)","qw422016.N().S(`            key := in.UnsafeFieldName(false)",1),
   ("(*vec)[index].Key = append((*vec)[index].Key[:0], in.UnsafeFieldName(true)...)","(*vec)[index].Key = append((*vec)[index].Key[:0], in.UnsafeFieldName(false)...)",1)])
M['fixDictB']=mut('fixDictB','pkg/basictl/basictl.go',[("func JSONWriteString(w []byte, s string) []byte {","// JSONStringIsText reports whether JSONWriteString writes s as a JSON string (and not as a {\"base64\":...} object).\nfunc JSONStringIsText(s string) bool { return utf8.ValidString(s) }\n\nfunc JSONWriteString(w []byte, s string) []byte {",1)])

# defects fixed in /repo after this check reported them: the pre-fix file of the fixing commit is a breaking change
def prefix(name, commit, rel):
    return lambda: _prefix(name, commit, rel)
def _prefix(name, commit, rel):
    import subprocess
    d='/var/tmp/c0506-mut/'+name; os.makedirs(d,exist_ok=True)
    p=d+'/'+os.path.basename(rel)
    open(p,'w').write(subprocess.check_output(['git','-C','/repo','show',commit+'^:'+rel],text=True))
    return rel+'='+p
M['c06m7']=prefix('c06m7','2d477779','internal/puregen/gengo/qt_union.qtpl.go')   # G2: {"ok":true} rejected for Maybe<union/enum>
M['c06m8']=prefix('c06m8','514ac841','internal/puregen/gengo/qt_struct.qtpl.go')  # G4: masked recursive field left nil (TL2-enabled)
M['c05m7']=prefix('c05m7','a4f08751','internal/puregen/gengo/qt_maybe.qtpl.go')   # F3: Maybe JSON writer dereferences a nil receiver
for k in sys.argv[1:]:
    print(M[k]())
