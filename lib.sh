# Sourced by vcheck and by every checks/<ID>/run script.
# Go toolchain: /repo needs go1.24.0; GOTOOLCHAIN=local / GOSUMDB=off break the auto-switch on this image, so clear
# whatever the caller exported and put the cached 1.24 toolchain first on PATH.
unset GOTOOLCHAIN GOSUMDB GOWORK
export GOFLAGS=-mod=mod GOPROXY=off
_TC=/root/go/pkg/mod/golang.org/toolchain@v0.0.1-go1.24.0.linux-amd64
unset GOROOT
if [ -x "$_TC/bin/go" ]; then export PATH="$_TC/bin:$PATH"; fi
export VERIF_ROOT="${VERIF_ROOT:-/verif}"
export VERIF_REPO="${VERIF_REPO:-/repo}"
export VERIF_SEED="${VERIF_SEED:-0}"
export VERIF_WORKERS="${VERIF_WORKERS:-$(nproc)}"

# vb_scratch: creates a scratch dir outside /repo, /verif and /tmp; removed at exit.
vb_scratch() {
  VERIF_SCRATCH="$(mktemp -d /var/tmp/verif.XXXXXX)"
  export VERIF_SCRATCH
  trap 'rm -rf "$VERIF_SCRATCH"' EXIT
}

# vb_overlay_begin / vb_overlay_add <dst-path-relative-to-repo> <src-file> / vb_overlay_end
# builds $VERIF_SCRATCH/overlay.json; vlib is always mapped to internal/zzverif/vlib.
vb_overlay_begin() {
  _OV_ENTRIES=()
  local f
  for f in "$VERIF_ROOT"/vlib/*.go; do
    _OV_ENTRIES+=("\"$VERIF_REPO/internal/zzverif/vlib/$(basename "$f")\": \"$f\"")
  done
}
vb_overlay_add() { _OV_ENTRIES+=("\"$VERIF_REPO/$1\": \"$2\""); }
vb_overlay_end() {
  # VERIF_EXTRA_OVERLAY="rel/path/in/repo=/abs/replacement;rel2=/abs2": extra Replace entries, used ONLY to try a
  # deliberate property-breaking change (or a candidate fix) against a check without touching /repo. Unset in normal use.
  if [ -n "${VERIF_EXTRA_OVERLAY:-}" ]; then
    local pair
    local IFS=';'
    for pair in $VERIF_EXTRA_OVERLAY; do
      [ -n "$pair" ] && _OV_ENTRIES+=("\"$VERIF_REPO/${pair%%=*}\": \"${pair#*=}\"")
    done
    echo "NOTE: building with VERIF_EXTRA_OVERLAY=$VERIF_EXTRA_OVERLAY" >&2
  fi
  local IFS=,
  printf '{"Replace": {%s}}\n' "${_OV_ENTRIES[*]}" > "$VERIF_SCRATCH/overlay.json"
}

# vb_test_bin <pkg-relative-to-repo> <out>: go test -c with the overlay, from the repo's current working tree.
vb_test_bin() {
  (cd "$VERIF_REPO" && go test -c -vet=off -overlay "$VERIF_SCRATCH/overlay.json" -o "$2" "./$1") || {
    echo "HARNESS-ERROR: build of $1 failed" >&2; return 2; }
}

# vb_run_harness <bin> <TestName> [extra args...]: runs a harness test binary; its exit code is the check's.
vb_run_harness() {
  local bin="$1" name="$2"; shift 2
  (cd "$VERIF_SCRATCH" && "$bin" -test.run "^${name}\$" -test.timeout 0 -test.v=false "$@")
}

# vb_build_bin <pkg-relative-to-repo> <out>: go build of a repo command (e.g. cmd/tl2gen) with the overlay.
vb_build_bin() {
  (cd "$VERIF_REPO" && go build -overlay "$VERIF_SCRATCH/overlay.json" -o "$2" "./$1") || {
    echo "HARNESS-ERROR: build of $1 failed" >&2; return 2; }
}
