#!/bin/bash
# Run once after a fresh restore, offline. Nothing is fetched: the harnesses are built at check time from /repo's
# working tree; this only warms the Go build cache so that quick checks stay quick.
cd "$(dirname "$(readlink -f "$0")")"
. ./lib.sh
chmod +x vcheck checks/*/run 2>/dev/null
(cd "$VERIF_REPO" && go build ./... >/dev/null 2>&1; go vet -vettool=/bin/true ./... >/dev/null 2>&1; true)
for t in internal/vkgo/pkg/algo internal/vkgo/pkg/semaphore pkg/rpc/udp pkg/rpc pkg/basictl internal/tlast internal/tlcodegen internal/pure; do
  (cd "$VERIF_REPO" && go test -c -vet=off -o /dev/null "./$t" >/dev/null 2>&1; true)
done
[ -x ./setup_extra.sh ] && ./setup_extra.sh
exit 0
