#!/usr/bin/env python3
"""Generates MANIFEST.json from checks/*/check.json and not_applicable.json (run after adding or editing a check)."""
import json, glob, os
root = os.path.dirname(os.path.abspath(__file__))
checks = []
for p in sorted(glob.glob(os.path.join(root, "checks", "*", "check.json"))):
    c = json.load(open(p))
    i = c["property_id"]
    e = {
        "property_id": i,
        "quick_cmd": c.get("quick_cmd", f"./vcheck {i} quick"),
        "thorough_cmd": c.get("thorough_cmd", f"./vcheck {i} thorough"),
        "evidence_file": f"/verif/evidence/{i}.json",
        "replay_cmd_template": f"./vcheck {i} --replay {{path}}",
        "engine": c["engine"],
        "level_claimed": {"category": c["category"], "text": c["text"], "design_ref": c["design_ref"]},
        "level_note": c["level_note"],
        "technique": c["technique"],
    }
    checks.append(e)
na = json.load(open(os.path.join(root, "not_applicable.json")))
claimed = {c["property_id"] for c in checks}
props = [json.loads(l)["id"] for l in open(os.path.join(root, "properties.jsonl"))]
na_ids = {n["property_id"] for n in na}
for p in props:
    if p not in claimed and p not in na_ids:
        na.append({"property_id": p, "reason": "check not built yet in this session (planned: see DESIGN.md section 4); not claimed until its check exists and passes on the unchanged tree"})
na = [n for n in na if n["property_id"] not in claimed]
na.sort(key=lambda n: n["property_id"])
baseline = json.load(open("/root/.vp/BASELINE.json"))["cmd"] if os.path.exists("/root/.vp/BASELINE.json") else ""
m = {
    "version": 1,
    "setup_cmd": "./setup.sh",
    "hooks": {
        "guard": "verif",
        "enable": "no source hooks: every harness is added at check time with `go test -c -overlay` (files under /verif/checks/*/ and /verif/vlib mapped into the /repo module), so /repo's working tree is built as it stands",
        "baseline_off_cmd": baseline,
        "source_commits": [],
        "add_only": True,
    },
    "engines": json.load(open(os.path.join(root, "engines.json"))),
    "checks": checks,
    "not_applicable": na,
    "notes": "All checks: ./vcheck <ID> quick|thorough|--replay <path>. Known findings: /verif/known_findings.json. Seeded property-breaking changes and which check catches them: /verif/seeded/ and DESIGN.md.",
}
json.dump(m, open(os.path.join(root, "MANIFEST.json"), "w"), indent=1)
print("checks:", len(checks), "not_applicable:", len(na))
