#!/usr/bin/env python3
"""prints the red-team prompt for one property id (only the property record and a worktree path; nothing from /verif)"""
import json, sys
pid, wt = sys.argv[1], sys.argv[2]
n = sys.argv[3] if len(sys.argv) > 3 else "two"
rec = None
for l in open('/verif/properties.jsonl'):
    d = json.loads(l)
    if d['id'] == pid:
        rec = d
print(f"""You are a software engineer asked to stress a verification effort from the outside. You get a private git worktree of the Go repository VKCOM/tl (a TL schema compiler generating Go/C++/PHP serializers, an RPC library and a backward-compatibility linter) at {wt} . Work ONLY inside that directory (and scratch files under it); do not read or write /verif, /repo or any other worktree.

Here is one semantic property the repository is supposed to satisfy (JSON record: statement, quantifier, anchors):

{json.dumps(rec, ensure_ascii=False, indent=1)}

Task: produce {n} DIFFERENT, independent changes to the repository source (not to tests, not to checked-in generated code unless the property is about that code) each of which BREAKS this property while (1) the repository still compiles (`go build ./...`) and (2) the repository's existing test suite still passes. Go environment: `export GOFLAGS=-mod=mod GOPROXY=off` (nothing else; do not set GOTOOLCHAIN or GOSUMDB); no network. Test suite: `cd {wt} && go test -vet=off -count=1 -timeout 25m ./... 2>&1 | tail -40` (takes a few minutes; run it for each change and make sure everything that passed before still passes — run it once on the untouched worktree first to learn the baseline).

Make the changes REALISTIC and SUBTLE: the kind of regression a refactoring or an optimisation could introduce, needing something specific to manifest — a particular interleaving, a fault at a particular point, a multi-step sequence of operations, an unusual input shape or value, or two cooperating edits that each look fine alone — NOT something ordinary use or the existing tests would expose at once, and not a change that merely deletes the feature. Prefer different mechanisms for the changes (e.g. one in cursor/offset/size logic, one in state reset/reuse or a rarely taken branch). If a code generator template is involved note that `.qtpl` files are compiled to checked-in `.qtpl.go` files (the `qtc` compiler is not installed): edit BOTH consistently so the change is real.

For each change deliver, under {wt}/REDTEAM/<k>/ (k = 1, 2, …):
 - patch.diff : `git diff` of the source change only (apply cleanly with `git apply` on the untouched worktree; do not include REDTEAM/ files or the demo in it);
 - a demonstration: a Go test file or small program (say where it must be placed / how to run it) that FAILS (or prints a wrong result) with the change applied and PASSES without it, exercising the property through the repository's real code;
 - meta.json : {{"property": "{pid}", "summary": one sentence, "breaks_clause": which part of the statement, "needs_to_manifest": what specific input / sequence / schedule / option is needed, "files_changed": […], "suite_result": what you ran and saw (baseline vs with the change), "demo_cmd": exact command, "demo_result_with_change": …, "demo_result_without_change": …}}.
Leave the worktree itself CLEAN at the end (git checkout -- . ; keep only the untracked REDTEAM/ directory). In your final message list the changes (one paragraph each) and confirm the three facts for each: compiles, suite passes, demo fails with / passes without.""")
