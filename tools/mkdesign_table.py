#!/usr/bin/env python3
"""Regenerates the block between <!-- BEGIN-ASBUILT-TABLE --> and <!-- END-ASBUILT-TABLE --> in DESIGN.md from
checks/*/check.json, evidence/*.json, seeded/*/meta.json."""
import json, glob, os, re
root = os.path.dirname(os.path.dirname(os.path.abspath(__file__)))
rows = []
for p in sorted(glob.glob(f"{root}/checks/*/check.json")):
    c = json.load(open(p)); i = c["property_id"]
    ev = {}
    try: ev = json.load(open(f"{root}/evidence/{i}.json"))
    except Exception: pass
    cov = ev.get("coverage", {})
    seeds = []
    for m in sorted(glob.glob(f"{root}/seeded/*/meta.json")):
        md = json.load(open(m))
        for k, v in md.get("caught_by", {}).items():
            if k == i: seeds.append(os.path.basename(os.path.dirname(m)) + ("" if v.get("quick") else " (thorough only)" if v.get("thorough") else " (MISSED)"))
    rows.append(f"| {i} | {c['engine'].split('(')[0].strip()} | {ev.get('tier','-')}: states {cov.get('states','-')}, transitions {cov.get('transitions','-')}, exhaustive {cov.get('exhaustive','-')}, known {len(cov.get('known_findings_hit',[]))} | {'; '.join(seeds) or '-'} |")
tab = "| id | engine | last committed evidence | seeded changes (independent red team) reported by this check |\n|---|---|---|---|\n" + "\n".join(rows)
d = open(f"{root}/DESIGN.md").read()
d = re.sub(r"(<!-- BEGIN-ASBUILT-TABLE -->).*?(<!-- END-ASBUILT-TABLE -->)", lambda m: m.group(1) + "\n" + tab + "\n" + m.group(2), d, flags=re.S)
# red-team statistics from seeded/*/meta.json
tot=first=later=missed=0; missed_list=[]
for m in sorted(glob.glob(f"{root}/seeded/*/meta.json")):
    md=json.load(open(m)); own=md.get("property"); cb=md.get("caught_by",{})
    tot+=1
    anyq=[k for k,v in cb.items() if v.get("quick")]
    h=md.get("history","") or ""
    if anyq:
        if ("missed at first run" in h or "MISSED" in h or "first run: missed" in h or "needed" in h) and not any((k+": reported at first run") in h for k in anyq): later+=1
        else: first+=1
    else:
        missed+=1; missed_list.append(os.path.basename(os.path.dirname(m)))
st=f"{tot} seeded changes kept; {first} reported by a check at the first attempt, {later} reported after the check was strengthened, {missed} not reported by any quick tier" + (": " + ", ".join(missed_list) if missed_list else "") + "."
d = re.sub(r"(<!-- BEGIN-RT-STATS -->).*?(<!-- END-RT-STATS -->)", lambda m: m.group(1) + "\n" + st + "\n" + m.group(2), d, flags=re.S)
kf = json.load(open(f"{root}/known_findings.json"))
fx = "\n".join("* " + x.replace("fixed: ", "", 1) for x in kf.get("fixed", []))
d = re.sub(r"(<!-- BEGIN-FIXED-LIST -->).*?(<!-- END-FIXED-LIST -->)", lambda m: m.group(1) + "\n" + fx + "\n" + m.group(2), d, flags=re.S)
open(f"{root}/DESIGN.md", "w").write(d)
print(len(rows), "rows")
