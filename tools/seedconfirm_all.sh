#!/bin/bash
# Re-confirms every seeded change that has no confirm.log yet, in a scratch worktree placed where the red-team agent
# worked (/tmp/rt/<ID>, so that its recorded demo_cmd runs verbatim): demo passes without the change; with it:
# git apply ok, go build ./... ok, full suite ok, demo fails. Worktrees are removed afterwards.
cd /verif; . ./lib.sh
for d in seeded/*/; do
  name=$(basename $d); [ -f $d/confirm.log ] && continue
  [ -f $d/meta.redteam.json ] || continue
  id=${name%%-*}; k=$(echo $name | sed -E 's/^C[0-9]+-rt([0-9]+)-.*/\1/')
  wt=/tmp/rt/$id; git -C /repo worktree remove --force $wt >/dev/null 2>&1; rm -rf $wt
  git -C /repo worktree add -q --detach $wt HEAD || continue
  mkdir -p $wt/REDTEAM/$k; cp -r $d/* $wt/REDTEAM/$k/; cp $d/meta.redteam.json $wt/REDTEAM/$k/meta.json
  demo=$(python3 -c "import json,sys; import re
c=json.load(open('$d/meta.redteam.json')).get('demo_cmd','')
c=re.split(r'\s{2,}[(#]', c)[0]            # drop trailing prose the agent appended after the command
c=re.sub(r'git apply REDTEAM/\d+/patch\.diff\s*&&\s*', '', c)   # the confirm script applies the patch itself
print(c.strip())")
  {
   echo "## $(date -u +%FT%TZ) repo HEAD $(git -C /repo rev-parse --short HEAD) seed $name"
   echo "## demo_cmd: $demo"
   if [ -z "$demo" ]; then echo "VERDICT no demo_cmd recorded"; else
   cd $wt
   echo "## demo without the change"; timeout 1500 bash -c "$demo" > $wt/.demo0.log 2>&1; d0=$?; tail -5 $wt/.demo0.log; echo "demo exit without change: $d0"
   git checkout -q -- . 2>/dev/null; git clean -fdq -e REDTEAM 2>/dev/null
   echo "## apply"; git apply REDTEAM/$k/patch.diff; ap=$?
   echo "## go build ./..."; go build ./... ; b=$?
   echo "## suite"; go test -vet=off -count=1 -timeout 25m ./... 2>&1 | grep -v "no test files" | grep -v "^ok" | tail -15; t=${PIPESTATUS[0]}
   echo "## demo with the change"; timeout 1500 bash -c "$demo" > $wt/.demo1.log 2>&1; d1=$?; tail -8 $wt/.demo1.log; echo "demo exit with change: $d1"
   echo "VERDICT apply=$ap build=$b suite=$t demo_without=$d0 demo_with=$d1"
   fi
  } > /var/tmp/confirm.$name.log 2>&1
  cd /verif; cp /var/tmp/confirm.$name.log $d/confirm.log
  git -C /repo worktree remove --force $wt >/dev/null 2>&1; rm -rf $wt
  tail -1 $d/confirm.log | sed "s/^/$name: /"
done
echo CONFIRMDONE
