#!/usr/bin/env python3
"""Builds seeded/<name>/meta.json for every seeded change from seeded/RESULTS.log (chronological lines
'<name> <check> violations=N exit=E' appended by the seed-run batches; exit=1 means the check reported the change).
Hand-written meta.json files (with a 'history' that is not auto-generated) are kept, only caught_by is refreshed."""
import json, os, re, glob, collections
root = os.path.dirname(os.path.dirname(os.path.abspath(__file__)))
res = collections.defaultdict(lambda: collections.defaultdict(list))
for l in open(f"{root}/seeded/RESULTS.log"):
    m = re.match(r"(\S+) (C\d+) violations=\d+ exit=(\d)", l)
    if m: res[m.group(1)][m.group(2)].append(int(m.group(3)))
for d in sorted(glob.glob(f"{root}/seeded/*/")):
    name = os.path.basename(d.rstrip('/'))
    prop = name.split('-')[0]
    rt = {}
    if os.path.exists(d + "meta.redteam.json"):
        try: rt = json.load(open(d + "meta.redteam.json"))
        except Exception: rt = {}
    old = {}
    if os.path.exists(d + "meta.json"): old = json.load(open(d + "meta.json"))
    caught = dict(old.get("caught_by", {}))
    hist = []
    for chk, exits in res.get(name, {}).items():
        if exits[-1] == 1: caught[chk] = {"quick": True}
        elif exits[-1] == 0: caught[chk] = {"quick": False}
        else: caught[chk] = {"quick": False, "note": "harness error (exit 2) - check being hardened"}
        if len(exits) > 1 and exits[0] != 1 and exits[-1] == 1: hist.append(f"{chk}: missed at first run, reported after the check was strengthened")
        elif exits[0] == 1: hist.append(f"{chk}: reported at first run")
        elif exits[-1] != 1: hist.append(f"{chk}: NOT reported (yet)")
    confirm = None
    if os.path.exists(d + "confirm.log"):
        txt = open(d + "confirm.log").read()
        m = re.search(r"CONFIRMED (.*)", txt) or re.search(r"VERDICT (.*)", txt); confirm = (("CONFIRMED " if "CONFIRMED" in m.group(0) else "") + m.group(1)) if m else None
    history = old.get("history") if old.get("history") and not old.get("auto") else "; ".join(hist)
    meta = {"property": prop, "source": "independent sub-agent given only the property record and a scratch worktree",
            "summary": rt.get("summary"), "breaks_clause": rt.get("breaks_clause"), "needs_to_manifest": rt.get("needs_to_manifest"),
            "files_changed": rt.get("files_changed"), "demo_cmd": rt.get("demo_cmd"),
            "redteam_suite_result": rt.get("suite_result"),
            "confirmed_in_scratch_worktree": confirm or "by the red-team agent in its own worktree (see redteam_suite_result); coordinator re-confirmation with tools/seedconfirm.sh pending",
            "caught_by": caught, "history": history, "auto": not (old.get("history") and not old.get("auto")),
            "how_run": "tools/seedrun.sh seeded/<name>/patch.diff <check> (patch applied in a scratch worktree of /repo HEAD, changed files overlaid on /repo with go -overlay; /repo untouched)"}
    json.dump(meta, open(d + "meta.json", "w"), indent=1, ensure_ascii=False)
print("ok")
