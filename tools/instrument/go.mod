module verif/tools/instrument

go 1.24.0
