// Command instrument rewrites the blocking primitives of selected Go files of ONE package of /repo's current working
// tree into the Engine C shim calls of /verif/vlib (see vlib/sched.go). It never writes into the repository: the
// rewritten copies go to -out and are mapped over the originals with `go build -overlay`.
//
//	instrument -repo /repo -pkg ./internal/vkgo/pkg/semaphore -out $VERIF_SCRATCH/instr/sem \
//	           [-files a.go,b.go]  [-src a.go=/path/to/replacement] [-vlib import/path/of/vlib]
//
// prints one line per rewritten file: "<path relative to repo>\t<rewritten file>".
//
// Rewrites: sync.Mutex/RWMutex/Cond/WaitGroup/Once/Pool, sync/atomic typed values, chan types, make(chan), send,
// receive, close, len/cap of channels, range over a channel, select (with/without default), go statements,
// ctx.Done(), context.WithCancel/WithCancelCause/WithDeadline/WithTimeout, time.Now/Since/Until/Sleep/After/AfterFunc/
// NewTimer/NewTicker, runtime.Gosched. The package is type-checked first (dependencies from the build cache's export
// data), so the decisions are made on types, not on spelling. ANY use of sync, sync/atomic, time, context that is
// neither rewritten nor on the explicit "pure, non-blocking" keep-list is a hard error that names the site — an
// uninstrumented blocking operation must never be left in silently.
package main

import (
	"bytes"
	"encoding/json"
	"flag"
	"fmt"
	"go/ast"
	"go/format"
	"go/importer"
	"go/parser"
	"go/printer"
	"go/token"
	"go/types"
	"io"
	"os"
	"os/exec"
	"path/filepath"
	"reflect"
	"sort"
	"strings"
)

const vlibName = "zzvlib"

type multiFlag []string

func (m *multiFlag) String() string     { return strings.Join(*m, ",") }
func (m *multiFlag) Set(s string) error { *m = append(*m, s); return nil }

func fatalf(format string, a ...any) {
	fmt.Fprintf(os.Stderr, "instrument: "+format+"\n", a...)
	os.Exit(1)
}

type listPkg struct {
	Dir        string
	ImportPath string
	Name       string
	GoFiles    []string
	CgoFiles   []string
	Export     string
}

func goList(repo string, args ...string) []listPkg {
	cmd := exec.Command("go", append([]string{"list", "-json=Dir,ImportPath,Name,GoFiles,CgoFiles,Export"}, args...)...)
	cmd.Dir = repo
	cmd.Stderr = os.Stderr
	out, err := cmd.Output()
	if err != nil {
		fatalf("go list %v: %v", args, err)
	}
	var res []listPkg
	dec := json.NewDecoder(bytes.NewReader(out))
	for {
		var p listPkg
		if err := dec.Decode(&p); err == io.EOF {
			break
		} else if err != nil {
			fatalf("go list output: %v", err)
		}
		res = append(res, p)
	}
	return res
}

func main() {
	repo := flag.String("repo", "/repo", "repository root")
	pkg := flag.String("pkg", "", "package directory relative to the repository, e.g. ./pkg/rpc")
	out := flag.String("out", "", "output directory")
	filesFlag := flag.String("files", "", "comma-separated file names of the package to rewrite (default: all)")
	vlibPath := flag.String("vlib", "github.com/VKCOM/tl/internal/zzverif/vlib", "import path of vlib")
	var srcs multiFlag
	flag.Var(&srcs, "src", "name.go=/path: read this file's source from another path (VERIF_EXTRA_OVERLAY replacement)")
	flag.Parse()
	if *pkg == "" || *out == "" {
		fatalf("-pkg and -out are required")
	}
	srcOverride := map[string]string{}
	for _, s := range srcs {
		k, v, ok := strings.Cut(s, "=")
		if !ok {
			fatalf("bad -src %q", s)
		}
		srcOverride[k] = v
	}
	pkgs := goList(*repo, *pkg)
	if len(pkgs) != 1 {
		fatalf("%s: expected one package, got %d", *pkg, len(pkgs))
	}
	target := pkgs[0]
	if len(target.CgoFiles) > 0 {
		fatalf("%s uses cgo: unsupported", *pkg)
	}
	exports := map[string]string{}
	for _, p := range goList(*repo, "-export", "-deps", *pkg) {
		if p.Export != "" {
			exports[p.ImportPath] = p.Export
		}
	}
	want := map[string]bool{}
	if *filesFlag != "" {
		for _, f := range strings.Split(*filesFlag, ",") {
			want[strings.TrimSpace(f)] = true
		}
	}
	fset := token.NewFileSet()
	var files []*ast.File
	names := map[*ast.File]string{}
	found := map[string]bool{}
	for _, name := range target.GoFiles {
		path := filepath.Join(target.Dir, name)
		if o, ok := srcOverride[name]; ok {
			path = o
		}
		src, err := os.ReadFile(path)
		if err != nil {
			fatalf("%v", err)
		}
		f, err := parser.ParseFile(fset, filepath.Join(target.Dir, name), src, parser.ParseComments|parser.SkipObjectResolution)
		if err != nil {
			fatalf("parse: %v", err)
		}
		files = append(files, f)
		names[f] = name
		found[name] = true
	}
	for f := range want {
		if !found[f] {
			fatalf("file %s is not a Go file of package %s (files: %v)", f, target.ImportPath, target.GoFiles)
		}
	}
	for f := range srcOverride {
		if !found[f] {
			fatalf("-src names %s which is not a Go file of package %s", f, target.ImportPath)
		}
	}
	info := &types.Info{Types: map[ast.Expr]types.TypeAndValue{}, Uses: map[*ast.Ident]types.Object{}, Defs: map[*ast.Ident]types.Object{},
		Selections: map[*ast.SelectorExpr]*types.Selection{}}
	var terrs []string
	conf := types.Config{
		Importer: importer.ForCompiler(fset, "gc", func(path string) (io.ReadCloser, error) {
			e, ok := exports[path]
			if !ok {
				return nil, fmt.Errorf("no export data for %s", path)
			}
			return os.Open(e)
		}),
		Error: func(err error) { terrs = append(terrs, err.Error()) },
	}
	if _, err := conf.Check(target.ImportPath, fset, files, info); err != nil || len(terrs) > 0 {
		fatalf("type-check of %s failed (the rewrite is type-driven, refusing to guess):\n  %s", target.ImportPath, strings.Join(terrs, "\n  "))
	}
	if err := os.MkdirAll(*out, 0o755); err != nil {
		fatalf("%v", err)
	}
	rel, err := filepath.Rel(*repo, target.Dir)
	if err != nil {
		fatalf("%v", err)
	}
	var allErrs []string
	type result struct{ rel, path string }
	var results []result
	stats := map[string]int{}
	for _, f := range files {
		name := names[f]
		if len(want) > 0 && !want[name] {
			continue
		}
		rw := &rewriter{fset: fset, info: info, file: f, vlibPath: *vlibPath, stats: stats}
		src := rw.run()
		allErrs = append(allErrs, rw.errs...)
		if len(rw.errs) > 0 {
			continue
		}
		hdr := fmt.Sprintf("// Code generated by /verif/tools/instrument from %s; DO NOT EDIT.\n// Blocking primitives are rewritten to the Engine C shims of vlib.\n\n", filepath.Join(rel, name))
		outPath := filepath.Join(*out, name)
		if err := os.WriteFile(outPath, append([]byte(rw.constraints+hdr), src...), 0o644); err != nil {
			fatalf("%v", err)
		}
		results = append(results, result{filepath.Join(rel, name), outPath})
	}
	if len(allErrs) > 0 {
		fatalf("%d construct(s) cannot be instrumented:\n  %s", len(allErrs), strings.Join(allErrs, "\n  "))
	}
	for _, r := range results {
		fmt.Printf("%s\t%s\n", r.rel, r.path)
	}
	var keys []string
	for k := range stats {
		keys = append(keys, k)
	}
	sort.Strings(keys)
	var sb strings.Builder
	for _, k := range keys {
		fmt.Fprintf(&sb, " %s=%d", k, stats[k])
	}
	fmt.Fprintf(os.Stderr, "instrument: %s: %d file(s) rewritten:%s\n", target.ImportPath, len(results), sb.String())
}

// ---------------------------------------------------------------- rewriter

type rewriter struct {
	fset     *token.FileSet
	info     *types.Info
	file     *ast.File
	vlibPath string
	errs     []string
	stats    map[string]int
	n        int

	constraints string
	// decisions taken on the original, typed AST
	mkChan    map[*ast.CallExpr]bool
	closeCh   map[*ast.CallExpr]bool
	lenCh     map[*ast.CallExpr]string
	ctxDone   map[*ast.CallExpr]bool
	recv2A    map[*ast.AssignStmt]bool
	recv2V    map[*ast.ValueSpec]bool
	rangeCh   map[*ast.RangeStmt]bool
	pkgSel    map[*ast.SelectorExpr]string // import path of the package a selector refers to
	constArg  map[ast.Expr]bool
	fromSel   map[*ast.BlockStmt]bool
	usedVlib  bool
}

func (rw *rewriter) errorf(pos token.Pos, format string, a ...any) {
	rw.errs = append(rw.errs, fmt.Sprintf("%s: %s", rw.fset.Position(pos), fmt.Sprintf(format, a...)))
}

func (rw *rewriter) fresh(prefix string) string {
	rw.n++
	return fmt.Sprintf("zz%s%d", prefix, rw.n)
}

func (rw *rewriter) vsel(name string) ast.Expr {
	rw.usedVlib = true
	return &ast.SelectorExpr{X: ast.NewIdent(vlibName), Sel: ast.NewIdent(name)}
}

func isChan(t types.Type) bool {
	if t == nil {
		return false
	}
	_, ok := t.Underlying().(*types.Chan)
	return ok
}

func unparen(e ast.Expr) ast.Expr {
	for {
		p, ok := e.(*ast.ParenExpr)
		if !ok {
			return e
		}
		e = p.X
	}
}

func isContext(t types.Type) bool {
	if t == nil {
		return false
	}
	if n, ok := t.(*types.Named); ok && n.Obj().Pkg() != nil && n.Obj().Pkg().Path() == "context" && n.Obj().Name() == "Context" {
		return true
	}
	// anything that has the full context.Context method set
	ms := types.NewMethodSet(t)
	for _, m := range []string{"Deadline", "Done", "Err", "Value"} {
		if ms.Lookup(nil, m) == nil {
			// try pointer receiver set
			if types.NewMethodSet(types.NewPointer(t)).Lookup(nil, m) == nil {
				return false
			}
		}
	}
	return true
}

func (rw *rewriter) prepass() {
	rw.mkChan, rw.closeCh, rw.lenCh = map[*ast.CallExpr]bool{}, map[*ast.CallExpr]bool{}, map[*ast.CallExpr]string{}
	rw.ctxDone, rw.recv2A, rw.recv2V = map[*ast.CallExpr]bool{}, map[*ast.AssignStmt]bool{}, map[*ast.ValueSpec]bool{}
	rw.rangeCh, rw.pkgSel, rw.constArg = map[*ast.RangeStmt]bool{}, map[*ast.SelectorExpr]string{}, map[ast.Expr]bool{}
	rw.fromSel = map[*ast.BlockStmt]bool{}
	for _, imp := range rw.file.Imports {
		if imp.Path.Value == `"C"` {
			rw.errorf(imp.Pos(), "cgo is not supported")
		}
		if imp.Name != nil && imp.Name.Name == "." {
			rw.errorf(imp.Pos(), "dot-import is not supported (package references must be explicit)")
		}
	}
	ast.Inspect(rw.file, func(n ast.Node) bool {
		switch v := n.(type) {
		case *ast.CallExpr:
			if id, ok := unparen(v.Fun).(*ast.Ident); ok {
				if _, isB := rw.info.Uses[id].(*types.Builtin); isB && len(v.Args) > 0 {
					at := rw.info.TypeOf(v.Args[0])
					switch id.Name {
					case "make":
						if isChan(at) {
							if _, lit := unparen(v.Args[0]).(*ast.ChanType); !lit {
								rw.errorf(v.Pos(), "make of a named channel type %s is not supported", at)
							}
							rw.mkChan[v] = true
						}
					case "close":
						rw.closeCh[v] = true
					case "len", "cap":
						if isChan(at) {
							rw.lenCh[v] = map[string]string{"len": "Len", "cap": "Cap"}[id.Name]
						}
					}
				}
			}
			if se, ok := unparen(v.Fun).(*ast.SelectorExpr); ok && se.Sel.Name == "Done" && len(v.Args) == 0 {
				if rt := rw.info.TypeOf(v); isChan(rt) {
					if isContext(rw.info.TypeOf(se.X)) {
						rw.ctxDone[v] = true
					} else {
						rw.errorf(v.Pos(), "%s.Done() returns a channel but the receiver is not a context.Context: do not know how to rewrite", types.ExprString(se.X))
					}
				}
			}
		case *ast.AssignStmt:
			if len(v.Lhs) == 2 && len(v.Rhs) == 1 {
				if u, ok := unparen(v.Rhs[0]).(*ast.UnaryExpr); ok && u.Op == token.ARROW {
					rw.recv2A[v] = true
				}
			}
		case *ast.ValueSpec:
			if len(v.Names) == 2 && len(v.Values) == 1 {
				if u, ok := unparen(v.Values[0]).(*ast.UnaryExpr); ok && u.Op == token.ARROW {
					rw.recv2V[v] = true
				}
			}
		case *ast.RangeStmt:
			if isChan(rw.info.TypeOf(v.X)) {
				rw.rangeCh[v] = true
			}
		case *ast.SelectorExpr:
			if id, ok := v.X.(*ast.Ident); ok {
				if pn, ok := rw.info.Uses[id].(*types.PkgName); ok {
					rw.pkgSel[v] = pn.Imported().Path()
				}
			}
		case *ast.GoStmt:
			for _, a := range v.Call.Args {
				if tv, ok := rw.info.Types[a]; ok && (tv.Value != nil || tv.IsNil()) {
					rw.constArg[a] = true
				}
			}
		case *ast.TypeSpec:
			if _, ok := v.Type.(*ast.ChanType); ok {
				rw.errorf(v.Pos(), "named channel type %s is not supported", v.Name.Name)
			}
		}
		return true
	})
}

func (rw *rewriter) run() []byte {
	// build constraints survive comment stripping
	for _, cg := range rw.file.Comments {
		if cg.Pos() >= rw.file.Package {
			break
		}
		for _, c := range cg.List {
			if strings.HasPrefix(c.Text, "//go:build") || strings.HasPrefix(c.Text, "// +build") {
				rw.constraints += c.Text + "\n"
			}
		}
	}
	if rw.constraints != "" {
		rw.constraints += "\n"
	}
	for _, cg := range rw.file.Comments {
		for _, c := range cg.List {
			if strings.HasPrefix(c.Text, "//go:") && !strings.HasPrefix(c.Text, "//go:build") && !strings.HasPrefix(c.Text, "//go:generate") {
				rw.errorf(c.Pos(), "compiler directive %q would be lost by the rewrite", strings.Fields(c.Text)[0])
			}
		}
	}
	rw.prepass()
	if len(rw.errs) > 0 {
		return nil
	}
	rw.file.Comments = nil
	ast.Inspect(rw.file, func(n ast.Node) bool { // comments carry positions that no longer mean anything
		switch v := n.(type) {
		case *ast.File:
			v.Doc = nil
		case *ast.FuncDecl:
			v.Doc = nil
		case *ast.GenDecl:
			v.Doc = nil
		case *ast.Field:
			v.Doc, v.Comment = nil, nil
		case *ast.ImportSpec:
			v.Doc, v.Comment = nil, nil
		case *ast.ValueSpec:
			v.Doc, v.Comment = nil, nil
		case *ast.TypeSpec:
			v.Doc, v.Comment = nil, nil
		}
		return true
	})
	rw.walk(reflect.ValueOf(rw.file))
	rw.verify()
	if len(rw.errs) > 0 {
		return nil
	}
	rw.fixImports()
	var buf bytes.Buffer
	if err := (&printer.Config{Mode: printer.UseSpaces | printer.TabIndent, Tabwidth: 8}).Fprint(&buf, token.NewFileSet(), rw.file); err != nil {
		rw.errs = append(rw.errs, "printer: "+err.Error())
		return nil
	}
	src, err := format.Source(buf.Bytes())
	if err != nil {
		rw.errs = append(rw.errs, fmt.Sprintf("rewritten %s does not parse: %v", rw.fset.Position(rw.file.Package).Filename, err))
		return nil
	}
	return src
}

var (
	exprType = reflect.TypeOf((*ast.Expr)(nil)).Elem()
	stmtType = reflect.TypeOf((*ast.Stmt)(nil)).Elem()
	declType = reflect.TypeOf((*ast.Decl)(nil)).Elem()
	specType = reflect.TypeOf((*ast.Spec)(nil)).Elem()
	nodeType = reflect.TypeOf((*ast.Node)(nil)).Elem()
)

// walk rewrites the tree bottom-up; v is a settable slot or a pointer to a node.
func (rw *rewriter) walk(v reflect.Value) {
	switch v.Kind() {
	case reflect.Interface:
		if v.IsNil() {
			return
		}
		node := v.Interface()
		// pre-order special forms
		switch n := node.(type) {
		case *ast.SelectStmt:
			v.Set(reflect.ValueOf(rw.selectStmt(n, nil)))
			return
		case *ast.LabeledStmt:
			if s, ok := n.Stmt.(*ast.SelectStmt); ok {
				v.Set(reflect.ValueOf(rw.selectStmt(s, n.Label)))
				return
			}
		case *ast.GoStmt:
			v.Set(reflect.ValueOf(rw.goStmt(n)))
			return
		}
		rw.walk(v.Elem())
		switch n := node.(type) {
		case ast.Expr:
			if v.Type() == exprType || v.Type() == nodeType {
				v.Set(reflect.ValueOf(rw.postExpr(n)))
			}
		case ast.Stmt:
			if v.Type() == stmtType || v.Type() == nodeType {
				v.Set(reflect.ValueOf(rw.postStmt(n)))
			}
		}
	case reflect.Ptr:
		if v.IsNil() {
			return
		}
		switch v.Interface().(type) {
		case *ast.Object, *ast.Scope, *ast.CommentGroup, *ast.Comment:
			return
		}
		if !v.Type().Implements(nodeType) {
			return
		}
		s := v.Elem()
		if s.Kind() != reflect.Struct {
			return
		}
		for i := 0; i < s.NumField(); i++ {
			f := s.Field(i)
			if !f.CanSet() {
				continue
			}
			switch f.Kind() {
			case reflect.Interface, reflect.Slice:
				rw.walk(f)
			case reflect.Ptr:
				rw.walk(f)
				// concrete slots (e.g. DeferStmt.Call, ExprStmt is interface): apply the expression hook if it keeps the type
				if ce, ok := f.Interface().(*ast.CallExpr); ok && ce != nil {
					ne := rw.postExpr(ce)
					if nce, ok := ne.(*ast.CallExpr); ok {
						f.Set(reflect.ValueOf(nce))
					} else {
						rw.errorf(ce.Pos(), "rewritten call in defer/go position is no longer a call")
					}
				}
			}
		}
	case reflect.Slice:
		for i := 0; i < v.Len(); i++ {
			e := v.Index(i)
			if e.Kind() == reflect.Interface || e.Kind() == reflect.Ptr {
				rw.walk(e)
			}
		}
	}
}

func primary(e ast.Expr) ast.Expr {
	switch e.(type) {
	case *ast.Ident, *ast.SelectorExpr, *ast.CallExpr, *ast.IndexExpr, *ast.ParenExpr, *ast.IndexListExpr:
		return e
	}
	return &ast.ParenExpr{X: e}
}

func method(x ast.Expr, name string, args ...ast.Expr) *ast.CallExpr {
	return &ast.CallExpr{Fun: &ast.SelectorExpr{X: primary(x), Sel: ast.NewIdent(name)}, Args: args}
}

// keep-lists: uses of these packages that are pure / non-blocking and therefore stay as they are.
var keep = map[string]map[string]bool{
	"sync": set("Locker"),
	"time": set("Duration", "Time", "Month", "Weekday", "Location", "Nanosecond", "Microsecond", "Millisecond", "Second", "Minute", "Hour",
		"Unix", "UnixMilli", "UnixMicro", "Date", "UTC", "Local", "Parse", "ParseDuration", "ParseInLocation", "LoadLocation", "FixedZone",
		"Layout", "ANSIC", "UnixDate", "RubyDate", "RFC822", "RFC822Z", "RFC850", "RFC1123", "RFC1123Z", "RFC3339", "RFC3339Nano", "Kitchen",
		"Stamp", "StampMilli", "StampMicro", "StampNano", "DateTime", "DateOnly", "TimeOnly", "ParseError",
		"January", "February", "March", "April", "May", "June", "July", "August", "September", "October", "November", "December",
		"Sunday", "Monday", "Tuesday", "Wednesday", "Thursday", "Friday", "Saturday"),
	"context": set("Context", "CancelFunc", "CancelCauseFunc", "Background", "TODO", "WithValue", "Canceled", "DeadlineExceeded", "Cause"),
}

// rewrites: package -> selector -> vlib name.
var rewrites = map[string]map[string]string{
	"sync": {"Mutex": "Mutex", "RWMutex": "RWMutex", "Cond": "Cond", "WaitGroup": "WaitGroup", "Once": "Once", "Pool": "Pool", "NewCond": "NewCond"},
	"sync/atomic": {"Int32": "AtomicInt32", "Int64": "AtomicInt64", "Uint32": "AtomicUint32", "Uint64": "AtomicUint64", "Bool": "AtomicBool",
		"Pointer": "AtomicPointer", "AddInt64": "AtomicAddInt64", "LoadInt64": "AtomicLoadInt64", "StoreInt64": "AtomicStoreInt64",
		"AddInt32": "AtomicAddInt32", "LoadInt32": "AtomicLoadInt32", "StoreInt32": "AtomicStoreInt32",
		"AddUint64": "AtomicAddUint64", "LoadUint64": "AtomicLoadUint64", "StoreUint64": "AtomicStoreUint64",
		"AddUint32": "AtomicAddUint32", "LoadUint32": "AtomicLoadUint32", "StoreUint32": "AtomicStoreUint32",
		"CompareAndSwapInt32": "AtomicCompareAndSwapInt32", "CompareAndSwapInt64": "AtomicCompareAndSwapInt64"},
	"time": {"Now": "Now", "Since": "Since", "Until": "Until", "Sleep": "Sleep", "After": "After", "AfterFunc": "AfterFunc",
		"NewTimer": "NewTimer", "NewTicker": "NewTicker", "Timer": "Timer", "Ticker": "Ticker"},
	"context": {"WithCancel": "WithCancel", "WithCancelCause": "WithCancelCause", "WithDeadline": "WithDeadline", "WithTimeout": "WithTimeout"},
	"runtime": {"Gosched": "Yield"},
}

func set(s ...string) map[string]bool {
	m := map[string]bool{}
	for _, x := range s {
		m[x] = true
	}
	return m
}

func (rw *rewriter) postExpr(e ast.Expr) ast.Expr {
	switch n := e.(type) {
	case *ast.ChanType:
		rw.stats["chan-type"]++
		return &ast.StarExpr{X: &ast.IndexExpr{X: rw.vsel("Chan"), Index: n.Value}}
	case *ast.UnaryExpr:
		if n.Op == token.ARROW {
			rw.stats["recv"]++
			return method(n.X, "Recv")
		}
	case *ast.SelectorExpr:
		path, ok := rw.pkgSel[n]
		if !ok {
			return e
		}
		if to, ok := rewrites[path][n.Sel.Name]; ok {
			rw.stats[path+"."+n.Sel.Name]++
			return rw.vsel(to)
		}
		switch path {
		case "sync", "sync/atomic", "time", "context":
			if !keep[path][n.Sel.Name] {
				rw.errorf(n.Pos(), "%s.%s: no rewrite known and not on the non-blocking keep-list", path, n.Sel.Name)
			}
		case "runtime":
			switch n.Sel.Name {
			case "LockOSThread", "UnlockOSThread", "Goexit":
				rw.errorf(n.Pos(), "runtime.%s is not supported under the controlled scheduler", n.Sel.Name)
			}
		case "os/signal":
			rw.errorf(n.Pos(), "os/signal delivers on real channels: not supported")
		}
	case *ast.CallExpr:
		switch {
		case rw.mkChan[n]:
			rw.stats["make-chan"]++
			st, ok := unparen(n.Args[0]).(*ast.StarExpr) // already rewritten *vlib.Chan[T]
			if !ok {
				rw.errorf(n.Pos(), "internal: make(chan) argument not rewritten")
				return e
			}
			elem := st.X.(*ast.IndexExpr).Index
			var size ast.Expr = &ast.BasicLit{Kind: token.INT, Value: "0"}
			if len(n.Args) > 1 {
				size = n.Args[1]
			}
			return &ast.CallExpr{Fun: &ast.IndexExpr{X: rw.vsel("MakeChan"), Index: elem}, Args: []ast.Expr{size}}
		case rw.closeCh[n]:
			rw.stats["close"]++
			return method(n.Args[0], "Close")
		case rw.lenCh[n] != "":
			rw.stats["len-chan"]++
			return method(n.Args[0], rw.lenCh[n])
		case rw.ctxDone[n]:
			rw.stats["ctx.Done"]++
			return &ast.CallExpr{Fun: rw.vsel("CtxDone"), Args: []ast.Expr{n.Fun.(*ast.SelectorExpr).X}}
		}
	}
	return e
}

func (rw *rewriter) postStmt(s ast.Stmt) ast.Stmt {
	switch n := s.(type) {
	case *ast.SendStmt:
		rw.stats["send"]++
		return &ast.ExprStmt{X: method(n.Chan, "Send", n.Value)}
	case *ast.AssignStmt:
		if rw.recv2A[n] {
			n.Rhs[0].(*ast.CallExpr).Fun.(*ast.SelectorExpr).Sel = ast.NewIdent("Recv2")
		}
	case *ast.DeclStmt:
		if gd, ok := n.Decl.(*ast.GenDecl); ok {
			rw.fixSpecs(gd)
		}
	case *ast.RangeStmt:
		if rw.rangeCh[n] {
			rw.stats["range-chan"]++
			okName := rw.fresh("ok")
			var first ast.Stmt
			recv := method(n.X, "Recv2")
			switch {
			case n.Key == nil:
				first = &ast.AssignStmt{Lhs: []ast.Expr{ast.NewIdent("_"), ast.NewIdent(okName)}, Tok: token.DEFINE, Rhs: []ast.Expr{recv}}
			case n.Tok == token.DEFINE:
				first = &ast.AssignStmt{Lhs: []ast.Expr{n.Key, ast.NewIdent(okName)}, Tok: token.DEFINE, Rhs: []ast.Expr{recv}}
			default:
				decl := &ast.DeclStmt{Decl: &ast.GenDecl{Tok: token.VAR, Specs: []ast.Spec{&ast.ValueSpec{Names: []*ast.Ident{ast.NewIdent(okName)}, Type: ast.NewIdent("bool")}}}}
				asg := &ast.AssignStmt{Lhs: []ast.Expr{n.Key, ast.NewIdent(okName)}, Tok: token.ASSIGN, Rhs: []ast.Expr{recv}}
				body := append([]ast.Stmt{decl, asg, brk(okName)}, n.Body.List...)
				return &ast.ForStmt{Body: &ast.BlockStmt{List: body}}
			}
			body := append([]ast.Stmt{first, brk(okName)}, n.Body.List...)
			return &ast.ForStmt{Body: &ast.BlockStmt{List: body}}
		}
	}
	return s
}

func brk(okName string) ast.Stmt {
	return &ast.IfStmt{Cond: &ast.UnaryExpr{Op: token.NOT, X: ast.NewIdent(okName)}, Body: &ast.BlockStmt{List: []ast.Stmt{&ast.BranchStmt{Tok: token.BREAK}}}}
}

func (rw *rewriter) fixSpecs(gd *ast.GenDecl) {
	for _, sp := range gd.Specs {
		if vs, ok := sp.(*ast.ValueSpec); ok && rw.recv2V[vs] {
			vs.Values[0].(*ast.CallExpr).Fun.(*ast.SelectorExpr).Sel = ast.NewIdent("Recv2")
		}
	}
}

// goStmt: `go f(a, b)` -> { zzf := f; zza := a; zzb := b; zzvlib.GoNamed("file:line", func() { zzf(zza, zzb) }) }
// (function value and arguments are evaluated by the spawning thread, as the language requires).
func (rw *rewriter) goStmt(g *ast.GoStmt) ast.Stmt {
	rw.stats["go"]++
	pos := rw.fset.Position(g.Pos())
	name := &ast.BasicLit{Kind: token.STRING, Value: fmt.Sprintf("%q", fmt.Sprintf("go@%s:%d", filepath.Base(pos.Filename), pos.Line))}
	call := g.Call
	constArgs := make([]bool, len(call.Args))
	for i, a := range call.Args {
		constArgs[i] = rw.constArg[a]
	}
	// rewrite inside the call first
	rw.walk(reflect.ValueOf(&call.Fun).Elem())
	for i := range call.Args {
		rw.walk(reflect.ValueOf(&call.Args[i]).Elem())
	}
	if fl, ok := call.Fun.(*ast.FuncLit); ok && len(call.Args) == 0 {
		return &ast.ExprStmt{X: &ast.CallExpr{Fun: rw.vsel("GoNamed"), Args: []ast.Expr{name, fl}}}
	}
	var pre []ast.Stmt
	fn := rw.fresh("f")
	pre = append(pre, &ast.AssignStmt{Lhs: []ast.Expr{ast.NewIdent(fn)}, Tok: token.DEFINE, Rhs: []ast.Expr{call.Fun}})
	var args []ast.Expr
	for i, a := range call.Args {
		if constArgs[i] {
			args = append(args, a)
			continue
		}
		an := rw.fresh("a")
		pre = append(pre, &ast.AssignStmt{Lhs: []ast.Expr{ast.NewIdent(an)}, Tok: token.DEFINE, Rhs: []ast.Expr{a}})
		args = append(args, ast.NewIdent(an))
	}
	inner := &ast.CallExpr{Fun: ast.NewIdent(fn), Args: args}
	if call.Ellipsis.IsValid() {
		inner.Ellipsis = 1
	}
	lit := &ast.FuncLit{Type: &ast.FuncType{Params: &ast.FieldList{}}, Body: &ast.BlockStmt{List: []ast.Stmt{&ast.ExprStmt{X: inner}}}}
	pre = append(pre, &ast.ExprStmt{X: &ast.CallExpr{Fun: rw.vsel("GoNamed"), Args: []ast.Expr{name, lit}}})
	return &ast.BlockStmt{List: pre}
}

// selectStmt: see the package comment of vlib/sched_chan.go for the target form.
func (rw *rewriter) selectStmt(s *ast.SelectStmt, label *ast.Ident) ast.Stmt {
	rw.stats["select"]++
	if len(s.Body.List) == 0 {
		return &ast.ExprStmt{X: &ast.CallExpr{Fun: rw.vsel("BlockForever")}}
	}
	sn := rw.fresh("s")
	hasDefault := false
	ncomm := 0
	for _, c := range s.Body.List {
		if c.(*ast.CommClause).Comm == nil {
			hasDefault = true
		} else {
			ncomm++
		}
	}
	var pre []ast.Stmt
	pre = append(pre, &ast.AssignStmt{Lhs: []ast.Expr{ast.NewIdent(sn)}, Tok: token.DEFINE,
		Rhs: []ast.Expr{&ast.CallExpr{Fun: rw.vsel("NewSelect"), Args: []ast.Expr{ast.NewIdent(fmt.Sprint(hasDefault))}}}})
	sw := &ast.SwitchStmt{Tag: method(ast.NewIdent(sn), "Wait"), Body: &ast.BlockStmt{}}
	idx := 0
	for _, c := range s.Body.List {
		cc := c.(*ast.CommClause)
		// rewrite the body in place
		for i := range cc.Body {
			rw.walk(reflect.ValueOf(&cc.Body[i]).Elem())
		}
		clause := &ast.CaseClause{Body: cc.Body}
		if cc.Comm == nil {
			// Wait returns -1; `default:` keeps the switch a terminating statement whenever the select was one
			sw.Body.List = append(sw.Body.List, clause)
			continue
		}
		if idx < ncomm-1 || hasDefault {
			clause.List = []ast.Expr{&ast.BasicLit{Kind: token.INT, Value: fmt.Sprint(idx)}}
		} // else: the last communication clause becomes `default:` (same reason)
		idx++
		recvOf := func(e ast.Expr) ast.Expr {
			u, ok := unparen(e).(*ast.UnaryExpr)
			if !ok || u.Op != token.ARROW {
				rw.errorf(e.Pos(), "select case is not a receive expression")
				return e
			}
			rw.walk(reflect.ValueOf(&u.X).Elem())
			return u.X
		}
		switch cm := cc.Comm.(type) {
		case *ast.SendStmt:
			rw.walk(reflect.ValueOf(&cm.Chan).Elem())
			rw.walk(reflect.ValueOf(&cm.Value).Elem())
			pre = append(pre, &ast.ExprStmt{X: &ast.CallExpr{Fun: rw.vsel("AddSend"), Args: []ast.Expr{ast.NewIdent(sn), cm.Chan, cm.Value}}})
		case *ast.ExprStmt:
			ch := recvOf(cm.X)
			pre = append(pre, &ast.ExprStmt{X: &ast.CallExpr{Fun: rw.vsel("AddRecv"), Args: []ast.Expr{ast.NewIdent(sn), ch}}})
		case *ast.AssignStmt:
			if len(cm.Rhs) != 1 {
				rw.errorf(cm.Pos(), "unexpected select case")
				continue
			}
			ch := recvOf(cm.Rhs[0])
			for i := range cm.Lhs {
				rw.walk(reflect.ValueOf(&cm.Lhs[i]).Elem())
			}
			cn := rw.fresh("c")
			pre = append(pre, &ast.AssignStmt{Lhs: []ast.Expr{ast.NewIdent(cn)}, Tok: token.DEFINE,
				Rhs: []ast.Expr{&ast.CallExpr{Fun: rw.vsel("AddRecv"), Args: []ast.Expr{ast.NewIdent(sn), ch}}}})
			rhs := []ast.Expr{method(ast.NewIdent(cn), "V")}
			if len(cm.Lhs) == 2 {
				rhs = append(rhs, method(ast.NewIdent(cn), "Ok"))
			}
			bind := &ast.AssignStmt{Lhs: cm.Lhs, Tok: cm.Tok, Rhs: rhs}
			clause.Body = append([]ast.Stmt{bind}, clause.Body...)
		default:
			rw.errorf(cc.Pos(), "unexpected select case %T", cc.Comm)
		}
		sw.Body.List = append(sw.Body.List, clause)
	}
	var last ast.Stmt = sw
	if label != nil {
		last = &ast.LabeledStmt{Label: label, Stmt: sw}
	}
	return &ast.BlockStmt{List: append(pre, last)}
}

// verify: nothing that blocks may be left in its native form.
func (rw *rewriter) verify() {
	ast.Inspect(rw.file, func(n ast.Node) bool {
		switch v := n.(type) {
		case *ast.ChanType:
			rw.errorf(v.Pos(), "internal: channel type left unrewritten")
		case *ast.SendStmt:
			rw.errorf(v.Pos(), "internal: send left unrewritten")
		case *ast.SelectStmt:
			rw.errorf(v.Pos(), "internal: select left unrewritten")
		case *ast.GoStmt:
			rw.errorf(v.Pos(), "internal: go statement left unrewritten")
		case *ast.UnaryExpr:
			if v.Op == token.ARROW {
				rw.errorf(v.Pos(), "internal: receive left unrewritten")
			}
		case *ast.RangeStmt:
			if rw.rangeCh[v] {
				rw.errorf(v.Pos(), "internal: range over channel left unrewritten")
			}
		case *ast.GenDecl:
			rw.fixSpecs(v)
		}
		return true
	})
}

func (rw *rewriter) fixImports() {
	used := map[string]bool{}
	ast.Inspect(rw.file, func(n ast.Node) bool {
		if se, ok := n.(*ast.SelectorExpr); ok {
			if id, ok := se.X.(*ast.Ident); ok {
				used[id.Name] = true
			}
		}
		return true
	})
	localName := func(imp *ast.ImportSpec) string {
		if imp.Name != nil {
			return imp.Name.Name
		}
		p := strings.Trim(imp.Path.Value, `"`)
		return p[strings.LastIndex(p, "/")+1:]
	}
	for _, d := range rw.file.Decls {
		gd, ok := d.(*ast.GenDecl)
		if !ok || gd.Tok != token.IMPORT {
			continue
		}
		var specs []ast.Spec
		for _, sp := range gd.Specs {
			imp := sp.(*ast.ImportSpec)
			p := strings.Trim(imp.Path.Value, `"`)
			switch p {
			case "sync", "sync/atomic", "time", "context", "runtime":
				if imp.Name != nil && (imp.Name.Name == "_") {
					specs = append(specs, sp)
				} else if used[localName(imp)] {
					specs = append(specs, sp)
				}
			default:
				specs = append(specs, sp)
			}
		}
		gd.Specs = specs
	}
	if rw.usedVlib {
		imp := &ast.GenDecl{Tok: token.IMPORT, Specs: []ast.Spec{&ast.ImportSpec{Name: ast.NewIdent(vlibName), Path: &ast.BasicLit{Kind: token.STRING, Value: fmt.Sprintf("%q", rw.vlibPath)}}}}
		rw.file.Decls = append([]ast.Decl{imp}, rw.file.Decls...)
	}
	// drop now-empty import declarations
	var decls []ast.Decl
	for _, d := range rw.file.Decls {
		if gd, ok := d.(*ast.GenDecl); ok && gd.Tok == token.IMPORT && len(gd.Specs) == 0 {
			continue
		}
		decls = append(decls, d)
	}
	rw.file.Decls = decls
}
