# Sourced by run scripts that use Engine C. vb_instrumenter prints the path of an up-to-date instrumenter binary:
# built from tools/instrument/*.go at check time, kept in /verif/.cache keyed by the hash of its sources and of the
# toolchain (linking it takes ~15 s on a loaded machine; the sources change rarely).
vb_instrumenter() {
  local src="$VERIF_ROOT/tools/instrument" h bin
  h="$( (cat "$src"/*.go "$src/go.mod"; go version) | sha256sum | cut -c1-16)"
  bin="$VERIF_ROOT/.cache/instrument-$h"
  if [ ! -x "$bin" ]; then
    mkdir -p "$VERIF_ROOT/.cache"
    (cd "$src" && go build -o "$bin.$$" . && mv "$bin.$$" "$bin") || { echo "HARNESS-ERROR: instrumenter does not build" >&2; return 2; }
  fi
  echo "$bin"
}
