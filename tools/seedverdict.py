#!/usr/bin/env python3
"""Derives, for every seeded/<name>/confirm.log, whether the change was confirmed: apply/build/suite ok, the demo
passes without the change and fails with it (judged by exit code OR a FAIL/panic marker in the demo output, because some
recorded demo commands end with a clean-up step that masks the exit code). Prints a table and stores
'confirmed' in meta.json (via seedmeta_auto, which reads confirm.log's VERDICT line; here we append a CONFIRMED line)."""
import glob, re, os, sys
root = os.path.dirname(os.path.dirname(os.path.abspath(__file__)))
bad = []
for f in sorted(glob.glob(f"{root}/seeded/*/confirm.log")):
    t = open(f).read()
    m = re.search(r"VERDICT apply=(\d+) build=(\d+) suite=(\d+) demo_without=(\d+) demo_with=(\d+)", t)
    if not m:
        bad.append((f, "no verdict")); continue
    ap, b, su, d0, d1 = map(int, m.groups())
    sec0 = t.split("## demo without the change")[1].split("## apply")[0] if "## demo without the change" in t else ""
    sec1 = t.split("## demo with the change")[1] if "## demo with the change" in t else ""
    fail = lambda s: bool(re.search(r"(^|\n)(--- FAIL|FAIL\b|panic:|RESULT: FAIL)", s))
    f0 = d0 != 0 or fail(sec0); f1 = d1 != 0 or fail(sec1)
    flaky_only = su != 0 and "semaphore" in t.split("## suite")[1].split("## demo with")[0] and t.split("## suite")[1].count("FAIL\t") <= 1
    ok = ap == 0 and b == 0 and (su == 0 or flaky_only) and not f0 and f1
    line = f"CONFIRMED {'yes' if ok else 'NO'} (apply={ap} build={b} suite={'ok' if su==0 else ('only the known semaphore timing flake' if flaky_only else 'FAIL')} demo_without={'fails' if f0 else 'passes'} demo_with={'fails' if f1 else 'passes'})"
    t = re.sub(r"\nCONFIRMED .*", "", t).rstrip("\n") + "\n" + line + "\n"
    open(f, "w").write(t)
    if not ok: bad.append((os.path.basename(os.path.dirname(f)), line))
print(len(glob.glob(f"{root}/seeded/*/confirm.log")), "confirm logs;", len(bad), "not confirmed")
for b in bad: print(" ", b[0], b[1])
