#!/bin/bash
# tools/seedrun.sh <patch.diff> <ID> [<ID>...]   (env TIER=quick|thorough)
# Runs checks against a candidate property-breaking change WITHOUT touching /repo: the patch is applied in a scratch
# worktree of /repo's HEAD and every file it changes is mapped over /repo's file with VERIF_EXTRA_OVERLAY (go -overlay).
# Equivalent to `git -C /repo apply` for Go sources; non-Go files (schemas, C++ runtime) are not reached this way.
set -u
P="$(readlink -f "$1")"; shift
WT="$(mktemp -d /var/tmp/seedwt.XXXXXX)"
trap 'git -C /repo worktree remove --force "$WT" >/dev/null 2>&1; rm -rf "$WT"' EXIT
for _try in 1 2 3 4 5 6; do git -C /repo worktree add -q --detach "$WT" HEAD 2>/dev/null && break; sleep 3; done
[ -e "$WT/.git" ] || { echo "cannot create scratch worktree"; exit 2; }
git -C "$WT" apply "$P" || { echo "patch does not apply"; exit 2; }
OV=""
while read -r f; do
  [ -f "$WT/$f" ] && OV="$OV$f=$WT/$f;"
done < <(git -C "$WT" status --porcelain | awk '{print $2}')
echo "overlay: $OV"
cd /verif
for id in "$@"; do
  echo "=== $id ${TIER:-quick}"
  out="$(VERIF_EXTRA_OVERLAY="$OV" ./vcheck "$id" "${TIER:-quick}" 2>&1)"; rc=$?
  echo "$out" | grep -E "^VIOLATION" | head -5
  echo "$out" | grep -A2 -E "^VIOLATION" | grep -E "^  what:" | head -2 | cut -c1-300
  echo "$out" | grep -E "HARNESS" | head -3
  echo "$out" | grep -E "^C[0-9]+ (quick|thorough):" | cut -c1-260
  echo "violation_lines=$(echo "$out" | grep -c "^VIOLATION") known_lines=$(echo "$out" | grep -c "^KNOWN-FINDING")"
  echo "exit=$rc"
done
