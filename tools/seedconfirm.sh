#!/bin/bash
# tools/seedconfirm.sh <seeded-dir> '<demo shell command run inside the worktree; $S = seeded dir>'
# Confirms a candidate property-breaking change in a scratch worktree of /repo's HEAD:
#   demo passes without the change; with the change: go build ./... ok, full test suite ok, demo fails.
# Writes <seeded-dir>/confirm.log and prints a one-line verdict. Removes the worktree afterwards.
set -u
S="$(readlink -f "$1")"; DEMO="$2"
. /verif/lib.sh
WT="$(mktemp -d /var/tmp/seedcf.XXXXXX)"
trap 'git -C /repo worktree remove --force "$WT" >/dev/null 2>&1; rm -rf "$WT"' EXIT
git -C /repo worktree add -q --detach "$WT" HEAD || exit 2
cd "$WT"
export S
{
echo "## $(date -u +%FT%TZ) repo HEAD $(git rev-parse --short HEAD)"
echo "## demo without the change"; bash -c "$DEMO"; d0=$?; echo "demo exit without change: $d0"
git checkout -q -- . ; git clean -fdq
echo "## apply"; git apply "$S/patch.diff"; ap=$?
echo "## go build ./..."; go build ./... ; b=$?
echo "## suite"; go test -vet=off -count=1 -timeout 25m ./... 2>&1 | grep -v "no test files" | tail -25; t=${PIPESTATUS[0]}
echo "## demo with the change"; bash -c "$DEMO"; d1=$?; echo "demo exit with change: $d1"
echo "VERDICT apply=$ap build=$b suite=$t demo_without=$d0 demo_with=$d1"
} > "$S/confirm.log" 2>&1
tail -1 "$S/confirm.log"
