#!/usr/bin/env python3
"""tools/seedmeta.py <seeded-dir> <property> '<history note>' CHECK:tier[,tier] ...   writes <dir>/meta.json"""
import json, sys, os, re
d = sys.argv[1].rstrip('/'); prop = sys.argv[2]; note = sys.argv[3]
rt = {}
if os.path.exists(f"{d}/meta.redteam.json"): rt = json.load(open(f"{d}/meta.redteam.json"))
caught = {}
for a in sys.argv[4:]:
    c, tiers = a.split(':'); caught[c] = {t: True for t in tiers.split(',')}
confirm = None
if os.path.exists(f"{d}/confirm.log"):
    m = re.search(r"VERDICT (.*)", open(f"{d}/confirm.log").read()); confirm = m.group(1) if m else None
meta = {"property": prop, "source": "independent sub-agent given only the property record and a scratch worktree",
        "summary": rt.get("summary"), "breaks_clause": rt.get("breaks_clause"), "needs_to_manifest": rt.get("needs_to_manifest"),
        "files_changed": rt.get("files_changed"), "demo_cmd": rt.get("demo_cmd"),
        "confirmed_in_scratch_worktree": confirm or "pending (tools/seedconfirm.sh)",
        "caught_by": caught, "history": note,
        "how_run": "tools/seedrun.sh <dir>/patch.diff <check> (patch applied in a scratch worktree, changed files overlaid on /repo with go -overlay; /repo untouched)"}
json.dump(meta, open(f"{d}/meta.json", "w"), indent=1, ensure_ascii=False)
